// ref.hpp - independent executable specification of the wencry file format, built on OpenSSL
// libcrypto (EVP ciphers, SHA1/MD5/SHA256, HMAC). Shares no code or table with wencry.
#pragma once
#include <openssl/evp.h>
#include <openssl/hmac.h>
#include <openssl/md5.h>
#include <openssl/sha.h>
#include <cstdint>
#include <cstring>
#include <string>
#include <vector>

namespace ref {
typedef std::vector<unsigned char> Bytes;

inline const EVP_MD *md_of(int hmode) { return hmode == 0 ? EVP_sha1() : hmode == 1 ? EVP_md5() : hmode == 2 ? EVP_sha256() : nullptr; }
inline int hlen_of(int hmode) { return hmode == 0 ? 20 : hmode == 1 ? 16 : hmode == 2 ? 32 : -1; }

inline Bytes digest(int hmode, const unsigned char *p, size_t n) {
  Bytes out(hlen_of(hmode));
  unsigned int l = 0;
  EVP_Digest(p, n, out.data(), &l, md_of(hmode), nullptr);
  return out;
}
inline Bytes digest(int hmode, const Bytes &b) { return digest(hmode, b.data(), b.size()); }
inline Bytes hmac(int hmode, const unsigned char *key, size_t klen, const unsigned char *p, size_t n) {
  Bytes out(EVP_MAX_MD_SIZE);
  unsigned int l = 0;
  static const unsigned char z = 0;
  HMAC(md_of(hmode), key, (int)klen, n ? p : &z, n, out.data(), &l);
  out.resize(l);
  return out;
}

inline const EVP_CIPHER *cipher_of(int cmode) {
  switch (cmode) {
  case 0: return EVP_aes_128_ecb();
  case 1: return EVP_aes_128_cbc();
  case 2: return EVP_aes_128_ctr();
  case 3: return EVP_aes_128_cfb128();
  case 4: return EVP_aes_128_ofb();
  }
  return nullptr;
}
// one continuous cipher stream (no padding); process() may be called repeatedly
struct Stream {
  EVP_CIPHER_CTX *ctx;
  Stream(int cmode, bool enc, const unsigned char *key, const unsigned char *iv) {
    ctx = EVP_CIPHER_CTX_new();
    EVP_CipherInit_ex(ctx, cipher_of(cmode), nullptr, key, iv, enc ? 1 : 0);
    EVP_CIPHER_CTX_set_padding(ctx, 0);
  }
  ~Stream() { EVP_CIPHER_CTX_free(ctx); }
  Stream(const Stream &) = delete;
  void process(unsigned char *p, size_t n) { // in place, n multiple of 16
    if (!n) return;
    std::vector<unsigned char> tmp(n + 32);
    int ol = 0;
    EVP_CipherUpdate(ctx, tmp.data(), &ol, p, (int)n);
    memcpy(p, tmp.data(), n);
  }
};
// single block AES-128 (ECB, one block)
inline void aes_block(bool enc, const unsigned char *key, const unsigned char *in, unsigned char *out) {
  Stream s(0, enc, key, nullptr);
  unsigned char t[16];
  memcpy(t, in, 16);
  s.process(t, 16);
  memcpy(out, t, 16);
}

static const unsigned char MAGIC[8] = {0xC3, 0xA5, 0xC3, 0xA5, 0xC3, 0xA5, 0xC3, 0xA5};

// IV chain: iv[0] = SHA1(seed as C string), iv[i] = SHA1(iv[i-1])
inline Bytes iv_chain(const Bytes &seed_cstr, int T) {
  Bytes iv(20 * T);
  size_t sl = 0;
  while (sl < seed_cstr.size() && seed_cstr[sl]) sl++;
  Bytes d = digest(0, seed_cstr.data(), sl);
  memcpy(iv.data(), d.data(), 20);
  for (int i = 1; i < T; i++) {
    d = digest(0, iv.data() + 20 * (i - 1), 20);
    memcpy(iv.data() + 20 * i, d.data(), 20);
  }
  return iv;
}
// body transform: chunks of S bytes dealt round-robin to T continuous streams, all started from iv16
inline void stripe(Bytes &body, int cmode, bool enc, const unsigned char *key, const unsigned char *iv16, int T, size_t S) {
  std::vector<Stream *> st;
  for (int i = 0; i < T; i++) st.push_back(new Stream(cmode, enc, key, iv16));
  size_t ch = 0;
  for (size_t off = 0; off < body.size(); off += S, ch++) {
    size_t n = std::min(S, body.size() - off);
    st[ch % T]->process(body.data() + off, n);
  }
  for (auto s : st) delete s;
}
inline Bytes encrypt_with_ivs(const Bytes &P, const unsigned char *key, int cmode, int hmode, const Bytes &ivs, int T, size_t S) {
  Bytes f;
  f.insert(f.end(), MAGIC, MAGIC + 8);
  f.push_back((unsigned char)cmode);
  f.push_back((unsigned char)hmode);
  f.insert(f.end(), 38, 0);
  f.insert(f.end(), ivs.begin(), ivs.begin() + 20 * T);
  Bytes body = P;
  int pad = 16 - (int)(P.size() % 16);
  body.insert(body.end(), pad, (unsigned char)pad);
  stripe(body, cmode, true, key, ivs.data(), T, S);
  f.insert(f.end(), body.begin(), body.end());
  Bytes tag = hmac(hmode, key, 16, f.data() + 48, f.size() - 48);
  memcpy(f.data() + 10, tag.data(), tag.size());
  return f;
}
inline Bytes encrypt(const Bytes &P, const unsigned char *key, int cmode, int hmode, const Bytes &seed_cstr, int T, size_t S) {
  return encrypt_with_ivs(P, key, cmode, hmode, iv_chain(seed_cstr, T), T, S);
}
// result codes: 0 ok, 1 too short, 2 tag mismatch, 3 mode out of range, 4 magic, 5 malformed body
struct Dec { int code; Bytes plain; };
inline int verify(const Bytes &f, const unsigned char *key) {
  if (f.size() < 8 || memcmp(f.data(), MAGIC, 8) != 0) return 4;
  if (f.size() < 10) return 1;
  int cmode = f[8], hmode = f[9];
  if (cmode > 4 || hmode > 2) return 3;
  if (f.size() < 48) return 1;
  Bytes tag = hmac(hmode, key, 16, f.data() + 48, f.size() - 48);
  if (memcmp(tag.data(), f.data() + 10, tag.size()) != 0) return 2;
  return 0;
}
inline Dec decrypt(const Bytes &f, const unsigned char *key, int T, size_t S) {
  Dec d;
  d.code = verify(f, key);
  if (d.code) return d;
  size_t hdr = 48 + 20 * (size_t)T;
  if (f.size() < hdr + 16 || (f.size() - hdr) % 16) { d.code = 5; return d; }
  Bytes body(f.begin() + hdr, f.end());
  stripe(body, f[8], false, key, f.data() + 48, T, S);
  int pad = body.back();
  if (pad < 1 || pad > 16) { d.code = 5; return d; }
  body.resize(body.size() - pad);
  d.plain = body;
  return d;
}

// ---- known-answer self test of the reference itself (run at setup) ------------------------------
inline Bytes unhex(const char *s) {
  Bytes b;
  for (size_t i = 0; s[i] && s[i + 1]; i += 2) { char t[3] = {s[i], s[i + 1], 0}; b.push_back((unsigned char)strtol(t, 0, 16)); }
  return b;
}
inline int selftest(std::string &why) {
  // FIPS-197 C.1
  Bytes k = unhex("000102030405060708090a0b0c0d0e0f"), p = unhex("00112233445566778899aabbccddeeff"), c(16), q(16);
  aes_block(true, k.data(), p.data(), c.data());
  if (c != unhex("69c4e0d86a7b0430d8cdb78070b4c55a")) { why = "FIPS-197 C.1"; return 1; }
  aes_block(false, k.data(), c.data(), q.data());
  if (q != p) { why = "FIPS-197 C.1 inverse"; return 1; }
  // SP 800-38A F.x first blocks
  Bytes k2 = unhex("2b7e151628aed2a6abf7158809cf4f3c"), iv = unhex("000102030405060708090a0b0c0d0e0f"),
        ctriv = unhex("f0f1f2f3f4f5f6f7f8f9fafbfcfdfeff");
  Bytes pt = unhex("6bc1bee22e409f96e93d7e117393172aae2d8a571e03ac9c9eb76fac45af8e51");
  struct { int m; const Bytes *iv; const char *ct; } v[] = {
      {0, &iv, "3ad77bb40d7a3660a89ecaf32466ef97f5d3d58503b9699de785895a96fdbaaf"},
      {1, &iv, "7649abac8119b246cee98e9b12e9197d5086cb9b507219ee95db113a917678b2"},
      {2, &ctriv, "874d6191b620e3261bef6864990db6ce9806f66b7970fdff8617187bb9fffdff"},
      {3, &iv, "3b3fd92eb72dad20333449f8e83cfb4ac8a64537a0b3a93fcde3cdad9f1ce58b"},
      {4, &iv, "3b3fd92eb72dad20333449f8e83cfb4a7789508d16918f03f53c52dac54ed825"}};
  for (auto &t : v) {
    Bytes x = pt;
    Stream s(t.m, true, k2.data(), t.iv->data());
    s.process(x.data(), 16);
    s.process(x.data() + 16, 16); // continuity across calls
    if (x != unhex(t.ct)) { why = "SP800-38A mode " + std::to_string(t.m); return 1; }
    Stream d(t.m, false, k2.data(), t.iv->data());
    d.process(x.data(), 32);
    if (x != pt) { why = "SP800-38A inverse mode " + std::to_string(t.m); return 1; }
  }
  Bytes abc = {'a', 'b', 'c'};
  if (digest(0, abc) != unhex("a9993e364706816aba3e25717850c26c9cd0d89d")) { why = "SHA1 abc"; return 1; }
  if (digest(1, abc) != unhex("900150983cd24fb0d6963f7d28e17f72")) { why = "MD5 abc"; return 1; }
  if (digest(2, abc) != unhex("ba7816bf8f01cfea414140de5dae2223b00361a396177a9cb410ff61f20015ad")) { why = "SHA256 abc"; return 1; }
  // RFC 4231 test case 2 (HMAC-SHA256, key "Jefe"), RFC 2202 (SHA1, MD5)
  const char *msg = "what do ya want for nothing?";
  if (hmac(2, (const unsigned char *)"Jefe", 4, (const unsigned char *)msg, 28) != unhex("5bdcc146bf60754e6a042426089575c75a003f089d2739839dec58b964ec3843")) { why = "RFC4231 tc2"; return 1; }
  if (hmac(0, (const unsigned char *)"Jefe", 4, (const unsigned char *)msg, 28) != unhex("effcdf6ae5eb2fa2d27416d5f184df9c259a7c79")) { why = "RFC2202 sha1 tc2"; return 1; }
  if (hmac(1, (const unsigned char *)"Jefe", 4, (const unsigned char *)msg, 28) != unhex("750c783e6ab0b503eaa86e310a5db738")) { why = "RFC2202 md5 tc2"; return 1; }
  // round trip of the format reference
  Bytes P(77);
  for (size_t i = 0; i < P.size(); i++) P[i] = (unsigned char)(i * 13 + 5);
  for (int cm = 0; cm < 5; cm++) {
    Bytes f = encrypt(P, k.data(), cm, cm % 3, Bytes{'s', 0}, 3, 32);
    if (f.size() != 48 + 60 + 80) { why = "format length"; return 1; }
    Dec d = decrypt(f, k.data(), 3, 32);
    if (d.code != 0 || d.plain != P) { why = "format round trip"; return 1; }
  }
  return 0;
}
} // namespace ref
