// cryptolib.cpp - library-level properties against libcrypto / RFC references:
//   mode=c07 hashes (string and file-buffer entry points, every length across block/pad/refill boundaries)
//   mode=c08 HMAC (gethmac/cmphmac on files, every length x start position; tag placement in written files)
//   mode=c09 single-block AES (tables exhaustively; every one-byte key deviation x one-byte block deviation)
//   mode=c10 five mode stream objects (all short block sequences, every counter carry depth, long streams)
//   mode=c16 base64 codec (all groups) and the key validator (all '=' placements, every byte at every position)
#include <algorithm>
#include "cases.hpp"
#include "fileops.hpp"
#include "aes.h"
#include "aesmode.h"
#include "base64.h"
#include "getval.h"
#include "hashmaster.h"
#include "tab.h" // kernel/multi_aes/aes/tab.h (s_box, rs_box, Logtable, Alogtable, RC)

using namespace cs;
static std::string MODE;
static bool THOROUGH = false;
static const size_t R = 64 * (size_t)filebuffer64::HBUF_SZ; // refill size of the file hashing buffer

static Hashmaster *hasher(int algo) { HashFactory hf; return hf.getHasher(hf.getType((u8_t)algo)); }
static const char *AN[] = {"sha1", "md5", "sha256"};

// ================================================================ C07
static Bytes msg_content(int kind, size_t n, size_t pos80) {
  Bytes m(n);
  for (size_t i = 0; i < n; i++) m[i] = kind == 0 ? 0x00 : kind == 1 ? 0xff : (unsigned char)(i * 131 + 7);
  if (kind == 3 && pos80 < n) { std::fill(m.begin(), m.end(), 0x41); m[pos80] = 0x80; }
  return m;
}
static std::string c07_string(const Case &c) {
  int algo = (int)c.num("algo");
  size_t n = (size_t)c.num("len");
  long evals = 0;
  std::string bad;
  Hashmaster *h = hasher(algo);
  for (size_t v = 0; v < 3 + n; v++) {
    Bytes m = msg_content(v < 3 ? (int)v : 3, n, v - 3);
    Bytes out(ref::hlen_of(algo) + 8, 0xAA);
    std::vector<unsigned char> place(n + 32);
    unsigned char *mp = place.data() + ((16 - ((uintptr_t)place.data() & 15)) & 15) + ((v + n) & 7); // the message lies at every offset 0..7 from an aligned address in turn
    memcpy(mp, m.data(), n);
    h->getStringHash(mp, (u32_t)n, out.data());
    evals++;
    Bytes exp = ref::digest(algo, m);
    if (memcmp(out.data(), exp.data(), exp.size()) != 0 && bad.empty())
      bad = std::string("digest-differs:string:") + AN[algo] + ":len%64=" + (n % 64 >= 56 ? "56..63" : "0..55") + "|" + AN[algo] + " of a " + std::to_string(n) + "-byte message (content " + std::to_string(v) + ") is " + hex(out.data(), exp.size()) + ", standard says " + hex(exp);
    if (out[exp.size()] != 0xAA && bad.empty()) bad = std::string("digest-overrun:") + AN[algo] + "|wrote past the digest length";
  }
  return "#" + std::to_string(evals) + "#" + bad;
}
// consecutive 64-byte blocks that are RELATED to each other (equal, byte-swapped per 32/64-bit word, byte-reversed, complemented, rotated):
// a compression loop that remembers something about the previous block (a schedule cache, a "same as before" shortcut, an aliased
// buffer) only shows on such content. Messages B|f(B), B|f(B)|B and f(B)|B|tail through both entry points, and f(B) hashed as a second
// message on the SAME hasher object right after B.
static void relate(int rel, const unsigned char *b, unsigned char *o) {
  for (int i = 0; i < 64; i++) {
    switch (rel) {
    case 0: o[i] = b[i]; break;                          // identical
    case 1: o[i] = b[(i & ~3) | (3 - (i & 3))]; break;   // every 32-bit word byte-swapped
    case 2: o[i] = b[(i & ~7) | (7 - (i & 7))]; break;   // every 64-bit word byte-swapped
    case 3: o[i] = b[63 - i]; break;                     // whole block reversed
    case 4: o[i] = (unsigned char)~b[i]; break;          // complement
    case 5: o[i] = b[(i + 1) & 63]; break;               // rotated by one byte
    case 6: o[i] = b[(i + 4) & 63]; break;               // rotated by one word
    default: o[i] = b[(i & ~1) | (1 - (i & 1))]; break;  // every 16-bit word byte-swapped
    }
  }
}
static std::string c07_blockpairs(const Case &c) {
  int algo = (int)c.num("algo"), rel = (int)c.num("rel");
  long evals = 0;
  static const char *RN[8] = {"identical", "bswap32", "bswap64", "reversed", "complement", "rot1", "rot4", "bswap16"};
  for (int base = 0; base < 4; base++) {
    unsigned char B[64], F[64];
    for (int i = 0; i < 64; i++) B[i] = base == 0 ? (unsigned char)(i * 131 + 7) : base == 1 ? (unsigned char)(0x80 | (i * 29)) : base == 2 ? (unsigned char)(i < 32 ? i : 0xff - i) : (unsigned char)((i * i) ^ 0x5a);
    relate(rel, B, F);
    for (int shape = 0; shape < 4; shape++) {
      Bytes m;
      auto app = [&](const unsigned char *p, size_t n) { m.insert(m.end(), p, p + n); };
      if (shape == 0) { app(B, 64); app(F, 64); }
      else if (shape == 1) { app(B, 64); app(F, 64); app(B, 64); }
      else if (shape == 2) { app(F, 64); app(B, 64); app(B, 17); }
      else { app(B, 64); app(B, 64); app(F, 64); app(F, 64); }
      Bytes exp = ref::digest(algo, m);
      std::string what = std::string(AN[algo]) + " of " + std::to_string(m.size()) + " bytes in which a block is followed by its " + RN[rel] + " image (base " + std::to_string(base) + ", shape " + std::to_string(shape) + ")";
      { // string entry point
        Hashmaster *h = hasher(algo);
        Bytes out(40, 0xAA);
        h->getStringHash(m.data(), (u32_t)m.size(), out.data());
        evals++;
        if (memcmp(out.data(), exp.data(), exp.size()) != 0) return "#" + std::to_string(evals) + "#digest-differs:related-blocks:" + AN[algo] + "|" + what + " (in memory) is not the standard digest";
      }
      { // file entry point
        int fd = memfd_with(m);
        FILE *fp = fopen_fd(fd, "rb");
        Hashmaster *h = hasher(algo);
        Bytes out(40, 0xAA);
        filebuffer64 *fb = new filebuffer64(fp);
        h->getFileHash(fb, out.data());
        delete fb;
        fclose(fp);
        close(fd);
        evals++;
        if (memcmp(out.data(), exp.data(), exp.size()) != 0) return "#" + std::to_string(evals) + "#digest-differs:related-blocks:" + AN[algo] + "|" + what + " (streamed from a file) is not the standard digest";
      }
    }
    { // two messages on one hasher object: B, then f(B)
      Hashmaster *h = hasher(algo);
      Bytes o1(40, 0xAA), o2(40, 0xAA);
      h->getStringHash(B, 64, o1.data());
      h->getStringHash(F, 64, o2.data());
      evals += 2;
      Bytes e1 = ref::digest(algo, Bytes(B, B + 64)), e2 = ref::digest(algo, Bytes(F, F + 64));
      if (memcmp(o1.data(), e1.data(), e1.size()) != 0 || memcmp(o2.data(), e2.data(), e2.size()) != 0)
        return "#" + std::to_string(evals) + "#digest-differs:related-messages:" + AN[algo] + "|" + AN[algo] + " of a 64-byte message hashed right after its " + RN[rel] + " image on the same hasher object is not the standard digest";
    }
  }
  return "#" + std::to_string(evals) + "#";
}
static std::string c07_file(const Case &c) {
  int algo = (int)c.num("algo"), pre = (int)c.num("pre"), off = (int)c.num("off");
  size_t n = (size_t)c.num("len");
  Bytes file = msg_content((int)c.num("ct", 2), n + off, 0);
  Bytes prefix(64);
  for (int i = 0; i < 64; i++) prefix[i] = (unsigned char)(0x36 ^ (i * 3));
  int fd = memfd_with(file);
  FILE *fp = fopen_fd(fd, "rb");
  fseek(fp, off, SEEK_SET);
  Hashmaster *h = hasher(algo);
  Bytes out(40, 0xAA);
  {
    filebuffer64 *fb = pre ? new filebuffer64(fp, [](std::string, size_t) {}, prefix.data()) : new filebuffer64(fp);
    h->getFileHash(fb, out.data());
    delete fb;
  }
  fclose(fp);
  close(fd);
  Bytes m;
  if (pre) m = prefix;
  m.insert(m.end(), file.begin() + off, file.end());
  Bytes exp = ref::digest(algo, m);
  if (memcmp(out.data(), exp.data(), exp.size()) != 0) {
    size_t tot = m.size();
    return std::string("digest-differs:file:") + AN[algo] + ":len%64=" + (tot % 64 >= 56 ? "56..63" : "0..55") + (n > R ? ":refilled" : "") + "|" + AN[algo] + " streamed through the file buffer (" + std::to_string(n) + " bytes from offset " + std::to_string(off) + (pre ? ", with prefix block" : "") + (c.num("ct", 2) == 1 ? ", all bytes 0xFF" : c.num("ct", 2) == 0 ? ", all bytes 0x00" : "") + ") is " + hex(out.data(), exp.size()) + ", standard says " + hex(exp);
  }
  return "";
}
struct BigFeed : buffer64 { // feeds `total` bytes of a counter pattern without a file
  unsigned long long total, done = 0;
  BigFeed(unsigned long long t) : total(t) {}
  static inline unsigned char at(unsigned long long i) { return (unsigned char)((i * 2654435761ULL) >> 24); }
  u32_t read_buffer64(u8_t *block, const std::function<void(std::string, size_t)> &) override {
    unsigned long long left = total - done;
    u32_t k = left >= 64 ? 64 : (u32_t)left;
    for (u32_t i = 0; i < k; i++) block[i] = at(done + i);
    done += k;
    return k;
  }
};
static std::string c07_big(const Case &c) {
  int algo = (int)c.num("algo");
  unsigned long long n = strtoull(c.str("len").c_str(), 0, 10);
  Hashmaster *h = hasher(algo);
  BigFeed feed(n);
  Bytes out(40, 0xAA);
  h->getFileHash(&feed, out.data());
  EVP_MD_CTX *ctx = EVP_MD_CTX_new();
  EVP_DigestInit_ex(ctx, ref::md_of(algo), nullptr);
  std::vector<unsigned char> buf(1 << 20);
  for (unsigned long long d = 0; d < n;) {
    size_t k = (size_t)std::min<unsigned long long>(buf.size(), n - d);
    for (size_t i = 0; i < k; i++) buf[i] = BigFeed::at(d + i);
    EVP_DigestUpdate(ctx, buf.data(), k);
    d += k;
  }
  Bytes exp(64);
  unsigned int l = 0;
  EVP_DigestFinal_ex(ctx, exp.data(), &l);
  EVP_MD_CTX_free(ctx);
  exp.resize(l);
  if (memcmp(out.data(), exp.data(), l) != 0) return std::string("digest-differs:big:") + AN[algo] + "|" + AN[algo] + " of " + std::to_string(n) + " bytes (2^32-bit counter range) is " + hex(out.data(), l) + ", standard says " + hex(exp);
  return "";
}

// ================================================================ C08
static const unsigned char HKEYS[5][16] = {
    {'a', 'b', 'c', 'd', 'e', 'f', 'g', 'h', '0', '1', '2', '3', '4', '5', '6', '7'},
    {0},
    {0xff, 0xff, 0xff, 0xff, 0xff, 0xff, 0xff, 0xff, 0xff, 0xff, 0xff, 0xff, 0xff, 0xff, 0xff, 0xff},
    {0x36, 0x36, 0x36, 0x36, 0x5c, 0x5c, 0x5c, 0x5c, 0x36, 0x5c, 0x36, 0x5c, 0x00, 0x80, 0x7f, 0xff},
    {0x0b, 0x0b, 0x0b, 0x0b, 0x0b, 0x0b, 0x0b, 0x0b, 0x0b, 0x0b, 0x0b, 0x0b, 0x0b, 0x0b, 0x0b, 0x0b}};
static std::vector<int> c08_positions() {
  if (THOROUGH) { std::vector<int> v; for (int i = 0; i <= 80; i++) v.push_back(i); return v; }
  return {0, 1, 10, 47, 48, 49, 63, 64, 65, 80};
}
// every key byte position x border values {0x00, 0x7f, 0x80, 0xff} on two base keys (one with all other bytes < 0x80, one mixed): a key-block
// preparation that treats key bytes as signed, works on wider lanes, or stops at a particular value shows as a wrong tag
static std::string c08_keypos(const Case &c) {
  int hm = (int)c.num("hm"), pos = (int)c.num("pos");
  long evals = 0;
  static const unsigned char BV[4] = {0x00, 0x7f, 0x80, 0xff};
  for (int base = 0; base < 2; base++)
    for (int v = 0; v < 4; v++)
      for (size_t n : {(size_t)0, (size_t)37, R + 5}) {
        unsigned char key[16], k2[16];
        for (int i = 0; i < 16; i++) key[i] = base ? (unsigned char)(0x90 + 7 * i) : (unsigned char)(0x21 + 5 * i);
        key[pos] = BV[v];
        memcpy(k2, key, 16);
        Bytes file = msg_content(2, n + 48, 0);
        int fd = memfd_with(file);
        FILE *fp = fopen_fd(fd, "rb");
        fseek(fp, 48, SEEK_SET);
        hmac hh;
        Bytes out(40, 0xAA);
        hh.gethmac((u8_t)hm, k2, fp, out.data());
        fclose(fp);
        close(fd);
        evals++;
        Bytes exp = ref::hmac(hm, key, 16, file.data() + 48, n);
        if (memcmp(out.data(), exp.data(), exp.size()) != 0)
          return "#" + std::to_string(evals) + "#" + std::string("tag-differs-for-key:") + AN[hm] + "|HMAC-" + AN[hm] + " under key " + hex(key, 16) + " (byte " + std::to_string(pos) + " = 0x" + hex(&BV[v], 1) + ") over a " + std::to_string(n) + "-byte message differs from RFC 2104";
        if (memcmp(k2, key, 16) != 0) return "#" + std::to_string(evals) + "#key-buffer-modified|gethmac changed the caller's key";
      }
  return "#" + std::to_string(evals) + "#";
}
static std::string c08_hmac(const Case &c) {
  int hm = (int)c.num("hm"), k = (int)c.num("k");
  size_t n = (size_t)c.num("len");
  long evals = 0;
  std::string bad;
  for (int pc = 0; pc < 2 * (int)c08_positions().size(); pc++) {
    int pos = c08_positions()[pc / 2];
    if ((pc & 1) && n == 0) continue;
    Bytes file = msg_content((pc & 1) ? 1 : 2, n + pos, 0); // counter pattern, and all bytes 0xFF
    int fd = memfd_with(file);
    FILE *fp = fopen_fd(fd, "rb");
    fseek(fp, pos, SEEK_SET);
    unsigned char key[16];
    memcpy(key, HKEYS[k], 16);
    hmac hh;
    Bytes out(40, 0xAA);
    hh.gethmac((u8_t)hm, key, fp, out.data());
    evals++;
    Bytes exp = ref::hmac(hm, HKEYS[k], 16, file.data() + pos, n);
    if (memcmp(out.data(), exp.data(), exp.size()) != 0 && bad.empty())
      bad = std::string("tag-differs:") + AN[hm] + ":innerlen%64=" + ((64 + n) % 64 >= 56 ? "56..63" : "0..55") + "|HMAC-" + AN[hm] + " over [" + std::to_string(pos) + ",EOF) of a " + std::to_string(n + pos) + "-byte file is " + hex(out.data(), exp.size()) + ", RFC 2104 says " + hex(exp);
    if (hh.get_length() != exp.size() && bad.empty()) bad = "tag-length|get_length() says " + std::to_string(hh.get_length());
    if (pos == 48 || pos == 0) { // comparison: exact tag accepted, every single-bit change rejected
      auto cmp = [&](const Bytes &tag) { fseek(fp, pos, SEEK_SET); hmac h2; return h2.cmphmac((u8_t)hm, key, fp, tag.data()); };
      evals++;
      if (!cmp(exp) && bad.empty()) bad = std::string("compare-rejects-right-tag:") + AN[hm] + "|cmphmac rejects the RFC 2104 tag";
      if (n % 37 == 0 || THOROUGH) {
        // two-byte deviations whose byte differences cancel arithmetically (0x80+0x80, 0x01+0xFF): an "accumulate the differences" comparison must not be fooled
        for (size_t i = 0; i < exp.size(); i++)
          for (size_t j = i + 1; j < exp.size(); j++)
            for (int var = 0; var < 2; var++) {
              Bytes t = exp;
              t[i] ^= var ? 0x01 : 0x80;
              t[j] ^= var ? 0xff : 0x80;
              evals++;
              if (cmp(t) && bad.empty()) bad = std::string("compare-accepts-wrong-tag:") + AN[hm] + "|cmphmac accepts a tag that differs in bytes " + std::to_string(i) + " and " + std::to_string(j);
            }
      }
      if (n % 37 == 0 || THOROUGH)
        for (size_t bit = 0; bit < exp.size() * 8; bit++) {
          Bytes t = exp;
          t[bit / 8] ^= (unsigned char)(1u << (bit % 8));
          evals++;
          if (cmp(t) && bad.empty()) bad = std::string("compare-accepts-wrong-tag:") + AN[hm] + "|cmphmac accepts a tag with bit " + std::to_string(bit) + " flipped";
        }
    }
    fclose(fp);
    close(fd);
  }
  return "#" + std::to_string(evals) + "#" + bad;
}
// one hmac object used for a whole sequence of calls with changing hash modes, keys and messages: every call must give what a
// fresh object gives (the class keeps per-call state in members)
static std::string c08_reuse(const Case &c) {
  int order = (int)c.num("order");
  hmac hh;
  long evals = 0;
  std::vector<std::pair<int, int>> seq;
  for (int hm = 0; hm < 3; hm++) for (int k = 0; k < 5; k++) seq.push_back({hm, k});
  // different orders: ascending, descending, interleaved by mode, rotated
  if (order == 1) std::reverse(seq.begin(), seq.end());
  else if (order == 2) std::sort(seq.begin(), seq.end(), [](auto a, auto b) { return a.second * 3 + a.first < b.second * 3 + b.first; });
  else if (order >= 3) std::rotate(seq.begin(), seq.begin() + (order * 4) % seq.size(), seq.end());
  for (int round = 0; round < 2; round++)
    for (auto &e : seq) {
      int hm = e.first, k = e.second;
      size_t n = 37 + 13 * (size_t)k + 64 * (size_t)round + (size_t)order;
      Bytes file = msg_content(2, n + 48, 0);
      int fd = memfd_with(file);
      FILE *fp = fopen_fd(fd, "rb");
      unsigned char key[16];
      memcpy(key, HKEYS[k], 16);
      Bytes exp = ref::hmac(hm, HKEYS[k], 16, file.data() + 48, n);
      Bytes out(40, 0xAA);
      fseek(fp, 48, SEEK_SET);
      hh.gethmac((u8_t)hm, key, fp, out.data());
      evals++;
      std::string bad;
      if (memcmp(out.data(), exp.data(), exp.size()) != 0 || out[exp.size()] != 0xAA) bad = std::string("reused-object-tag-differs:") + AN[hm] + "|an hmac object that has served other (mode,key) calls returns a tag for mode " + AN[hm] + " that is not RFC 2104 (call #" + std::to_string(evals) + " of the sequence, order " + std::to_string(order) + ")";
      fseek(fp, 48, SEEK_SET);
      if (bad.empty() && !hh.cmphmac((u8_t)hm, key, fp, exp.data())) bad = std::string("reused-object-rejects-right-tag:") + AN[hm] + "|cmphmac on a reused object rejects the RFC 2104 tag";
      Bytes wrong = exp;
      wrong.back() ^= 0x01;
      fseek(fp, 48, SEEK_SET);
      if (bad.empty() && hh.cmphmac((u8_t)hm, key, fp, wrong.data())) bad = std::string("reused-object-accepts-wrong-tag:") + AN[hm] + "|cmphmac on a reused object accepts a tag whose last byte is wrong";
      evals += 2;
      fclose(fp);
      close(fd);
      if (!bad.empty()) return "#" + std::to_string(evals) + "#" + bad;
    }
  return "#" + std::to_string(evals) + "#";
}
static std::string c08_filetag(const Case &c) {
  int T = (int)c.num("T"), cm = (int)c.num("cm"), hm = (int)c.num("hm"), k = (int)c.num("k");
  size_t n = (size_t)c.num("n");
  Bytes P = fo::content(0, n);
  fo::OpResult e = fo::wc_encrypt(P, HKEYS[k], cm, hm, "seed", T);
  if (!e.ret || e.out.size() < 48) return "encrypt-failed|no file to look at";
  size_t hl = ref::hlen_of(hm);
  Bytes exp = ref::hmac(hm, HKEYS[k], 16, e.out.data() + 48, e.out.size() - 48);
  if (memcmp(e.out.data() + 10, exp.data(), hl) != 0) return std::string("file-tag-differs:") + AN[hm] + "|bytes [10," + std::to_string(10 + hl) + ") of the written file are not HMAC-" + AN[hm] + " of [48,EOF)";
  for (size_t i = 10 + hl; i < 48; i++)
    if (e.out[i] != 0) return "zero-fill|byte " + std::to_string(i) + " between tag and offset 48 is not zero";
  return "";
}

// ================================================================ C09
static unsigned char xt(unsigned char a) { return (unsigned char)((a << 1) ^ ((a & 0x80) ? 0x1b : 0)); }
static unsigned char gmul(unsigned char a, unsigned char b) { unsigned char p = 0; while (b) { if (b & 1) p ^= a; a = xt(a); b >>= 1; } return p; }
static std::string c09_tables(const Case &) {
  long evals = 0;
  // S-box from the definition: multiplicative inverse in GF(2^8) then the affine map
  for (int x = 0; x < 256; x++) {
    unsigned char inv = 0;
    for (int y = 1; y < 256 && x; y++) if (gmul((unsigned char)x, (unsigned char)y) == 1) { inv = (unsigned char)y; break; }
    unsigned char s = inv, r = inv;
    for (int i = 0; i < 4; i++) { r = (unsigned char)((r << 1) | (r >> 7)); s ^= r; }
    s ^= 0x63;
    evals += 2;
    if (s_box[x] != s) return "#1#sbox|s_box[" + std::to_string(x) + "] is not the FIPS-197 S-box value";
    if (rs_box[s] != x) return "#1#inverse-sbox|rs_box[" + std::to_string(s) + "] is not the inverse S-box value";
  }
  // every product the round functions can form: Alogtable[c + Logtable[v]] for the 7 constants, all v
  const int logs[7] = {25, 1, 0, 223, 104, 238, 199};
  const unsigned char consts[7] = {2, 3, 1, 0x0e, 0x0b, 0x0d, 0x09};
  for (int k = 0; k < 7; k++)
    for (int v = 0; v < 256; v++) {
      unsigned char got = v ? Alogtable[logs[k] + Logtable[v]] : 0;
      evals++;
      if (got != gmul(consts[k], (unsigned char)v)) return "#1#gf-tables|Gmul(" + std::to_string(consts[k]) + "," + std::to_string(v) + ") from the log/antilog tables is wrong";
    }
  unsigned char rc = 1;
  for (int i = 1; i <= 10; i++) { evals++; if (RC[i] != rc) return "#1#rcon|RC[" + std::to_string(i) + "] wrong"; rc = xt(rc); }
  return "#" + std::to_string(evals) + "#";
}
static const char *C09_BASES[8][2] = {
    {"000102030405060708090a0b0c0d0e0f", "00112233445566778899aabbccddeeff"},
    {"00000000000000000000000000000000", "00000000000000000000000000000000"},
    {"ffffffffffffffffffffffffffffffff", "ffffffffffffffffffffffffffffffff"},
    {"61626364656667683031323334353637", "49276d20612074657374206d73672e00"},
    {"2b7e151628aed2a6abf7158809cf4f3c", "6bc1bee22e409f96e93d7e117393172a"},
    {"0f1e2d3c4b5a69788796a5b4c3d2e1f0", "80000000000000000000000000000001"},
    {"00000000000000000000000000000001", "ffffffffffffffffffffffffffffff7f"},
    {"fedcba98765432100123456789abcdef", "00ff00ff00ff00ff00ff00ff00ff00ff"}};
static std::string c09_dev(const Case &c) {
  int base = (int)c.num("base"), kp = (int)c.num("kp"), kv = (int)c.num("kv");
  Bytes key = unhex(C09_BASES[base][0]), blk0 = unhex(C09_BASES[base][1]);
  key[kp] = (unsigned char)kv;
  encryaes e(key.data());
  decryaes d(key.data());
  EVP_CIPHER_CTX *ce = EVP_CIPHER_CTX_new(), *cd = EVP_CIPHER_CTX_new();
  EVP_EncryptInit_ex(ce, EVP_aes_128_ecb(), nullptr, key.data(), nullptr);
  EVP_CIPHER_CTX_set_padding(ce, 0);
  EVP_DecryptInit_ex(cd, EVP_aes_128_ecb(), nullptr, key.data(), nullptr);
  EVP_CIPHER_CTX_set_padding(cd, 0);
  long evals = 0;
  std::string bad;
  int step = (int)c.num("bstep", 1);
  // placement: the block handed to runaes_128bit lies at every offset 0..15 from a 16-byte boundary in turn (the interface takes a
  // plain u8_t*; packed records and odd offsets are blocks too)
  alignas(16) unsigned char wbuf[48], xbuf[48], r[32], q[32];
  for (int bp = 0; bp < 16 && bad.empty(); bp++)
    for (int bv = 0; bv < 256; bv += step) {
      unsigned char *w = wbuf + 16 + ((bp + bv / step) & 15), *x = xbuf + 16 + ((bp * 5 + bv / step + 3) & 15);
      Bytes b = blk0;
      b[bp] = (unsigned char)bv;
      memcpy(w, b.data(), 16);
      e.runaes_128bit(w);
      int ol = 0;
      EVP_EncryptUpdate(ce, r, &ol, b.data(), 16);
      evals++;
      if (memcmp(w, r, 16) != 0) { bad = "encrypt-differs|AES-128(" + hex(key) + ", " + hex(b) + ") gives " + hex(w, 16) + ", FIPS-197 says " + hex(r, 16) + " (block at offset " + std::to_string((int)((uintptr_t)w & 15)) + " from a 16-byte boundary)"; break; }
      memcpy(x, w, 16);
      d.runaes_128bit(x);
      if (memcmp(x, b.data(), 16) != 0) { bad = "decrypt-not-inverse|decrypt(encrypt(x)) != x for key " + hex(key) + " block " + hex(b); break; }
      memcpy(x, b.data(), 16);
      d.runaes_128bit(x);
      EVP_DecryptUpdate(cd, q, &ol, b.data(), 16);
      if (memcmp(x, q, 16) != 0) { bad = "decrypt-differs|AES-128^-1(" + hex(key) + ", " + hex(b) + ") differs from FIPS-197"; break; }
    }
  EVP_CIPHER_CTX_free(ce);
  EVP_CIPHER_CTX_free(cd);
  return "#" + std::to_string(evals) + "#" + bad;
}
static std::string c09_bits(const Case &c) { // all 128 x 128 single-bit key/block pairs around a base
  int base = (int)c.num("base"), kb = (int)c.num("kb");
  Bytes key = unhex(C09_BASES[base][0]), blk0 = unhex(C09_BASES[base][1]);
  key[kb / 8] ^= (unsigned char)(1 << (kb % 8));
  encryaes e(key.data());
  decryaes d(key.data());
  long evals = 0;
  for (int bb = 0; bb < 128; bb++) {
    Bytes b = blk0;
    b[bb / 8] ^= (unsigned char)(1 << (bb % 8));
    alignas(16) unsigned char w[16], r[16];
    memcpy(w, b.data(), 16);
    e.runaes_128bit(w);
    ref::aes_block(true, key.data(), b.data(), r);
    evals++;
    if (memcmp(w, r, 16) != 0) return "#" + std::to_string(evals) + "#encrypt-differs|single-bit pair: key " + hex(key) + " block " + hex(b);
    d.runaes_128bit(w);
    if (memcmp(w, b.data(), 16) != 0) return "#" + std::to_string(evals) + "#decrypt-not-inverse|single-bit pair: key " + hex(key) + " block " + hex(b);
  }
  return "#" + std::to_string(evals) + "#";
}

// ---- round-state enumeration: data-dependent paths inside MixColumns / InvMixColumns --------------------------------------------
// An own AES-128 written from the FIPS-197 definitions (no table shared with wencry or libcrypto) is used only to CONSTRUCT inputs:
// for round r = 1..9, column c and a 4-byte pattern, the (key, block) pair is computed whose state entering MixColumns of round r
// (family S), leaving it (family M = the input of InvMixColumns in the straightforward inverse cipher) or leaving it xor the round
// key (family X = the input of InvMixColumns in the equivalent inverse cipher) has that pattern in column c. The oracle stays
// libcrypto; the construction is self-checked (own forward cipher must agree with libcrypto and reach the target state).
namespace own {
static unsigned char SB[256], ISB[256];
static bool inited = false;
static void init() {
  if (inited) return;
  for (int x = 0; x < 256; x++) {
    unsigned char inv = 0;
    for (int y = 1; y < 256 && x; y++) if (gmul((unsigned char)x, (unsigned char)y) == 1) { inv = (unsigned char)y; break; }
    unsigned char s = inv, r = inv;
    for (int i = 0; i < 4; i++) { r = (unsigned char)((r << 1) | (r >> 7)); s ^= r; }
    s ^= 0x63;
    SB[x] = s; ISB[s] = (unsigned char)x;
  }
  inited = true;
}
typedef unsigned char St[16]; // FIPS-197 order: byte i = row i%4, column i/4
static void expand(const unsigned char *key, unsigned char rk[11][16]) {
  memcpy(rk[0], key, 16);
  unsigned char rc = 1;
  for (int r = 1; r <= 10; r++) {
    unsigned char t[4] = {SB[rk[r - 1][13]], SB[rk[r - 1][14]], SB[rk[r - 1][15]], SB[rk[r - 1][12]]};
    t[0] ^= rc; rc = xt(rc);
    for (int i = 0; i < 4; i++) rk[r][i] = rk[r - 1][i] ^ t[i];
    for (int i = 4; i < 16; i++) rk[r][i] = rk[r - 1][i] ^ rk[r][i - 4];
  }
}
static void sub(St s, const unsigned char *box) { for (int i = 0; i < 16; i++) s[i] = box[s[i]]; }
static void shift(St s, bool inv) { St t; for (int c = 0; c < 4; c++) for (int r = 0; r < 4; r++) { int from = inv ? ((c - r + 4) % 4) : ((c + r) % 4); t[4 * c + r] = s[4 * from + r]; } memcpy(s, t, 16); }
static void mix(St s, bool inv) {
  static const unsigned char F[4] = {2, 3, 1, 1}, I[4] = {14, 11, 13, 9};
  const unsigned char *m = inv ? I : F;
  for (int c = 0; c < 4; c++) {
    unsigned char a[4], o[4];
    memcpy(a, s + 4 * c, 4);
    for (int r = 0; r < 4; r++) { o[r] = 0; for (int k = 0; k < 4; k++) o[r] ^= gmul(m[(k - r + 4) % 4], a[k]); }
    memcpy(s + 4 * c, o, 4);
  }
}
static void ark(St s, const unsigned char *k) { for (int i = 0; i < 16; i++) s[i] ^= k[i]; }
// plaintext whose state entering MixColumns of round r equals S
static void back_from_S(const unsigned char rk[11][16], int r, const St S, St pt) {
  memcpy(pt, S, 16);
  shift(pt, true); sub(pt, ISB);
  for (int q = r - 1; q >= 1; q--) { ark(pt, rk[q]); mix(pt, true); shift(pt, true); sub(pt, ISB); }
  ark(pt, rk[0]);
}
static void forward(const unsigned char rk[11][16], const St pt, St ct, int r, St atS) {
  memcpy(ct, pt, 16); ark(ct, rk[0]);
  for (int q = 1; q <= 9; q++) { sub(ct, SB); shift(ct, false); if (q == r) memcpy(atS, ct, 16); mix(ct, false); ark(ct, rk[q]); }
  sub(ct, SB); shift(ct, false); ark(ct, rk[10]);
}
} // namespace own
static const unsigned char C09_COLVALS[5] = {0x00, 0x01, 0x80, 0xff, 0x53};
static std::string c09_rstate(const Case &c) {
  own::init();
  int base = (int)c.num("base"), r = (int)c.num("r"), col = (int)c.num("col"), fam = (int)c.num("fam");
  Bytes key = unhex(C09_BASES[base][0]), fill = unhex(C09_BASES[base][1]);
  unsigned char rk[11][16];
  own::expand(key.data(), rk);
  encryaes e(key.data());
  decryaes d(key.data());
  long evals = 0;
  const char *FN[3] = {"entering MixColumns", "entering InvMixColumns (inverse cipher)", "entering InvMixColumns (equivalent inverse cipher)"};
  for (int ctx = 0; ctx < 3; ctx++)          // the other three columns: filler bytes / all zero / the same pattern
    for (int p = 0; p < 625 + 256; p++) {
      unsigned char pat[4];
      if (p < 625) { int q = p; for (int i = 0; i < 4; i++) { pat[i] = C09_COLVALS[q % 5]; q /= 5; } }
      else memset(pat, p - 625, 4);
      own::St T, S, pt, ct, atS;
      for (int i = 0; i < 16; i++) T[i] = ctx == 0 ? fill[i] : ctx == 1 ? 0 : pat[i % 4];
      memcpy(T + 4 * col, pat, 4);
      memcpy(S, T, 16);
      if (fam == 2) own::ark(S, rk[r]);        // X = M xor k_r  =>  M = X xor k_r
      if (fam >= 1) own::mix(S, true);         // M = MixColumns(S)  =>  S = InvMixColumns(M)
      own::back_from_S(rk, r, S, pt);
      own::forward(rk, pt, ct, r, atS);
      unsigned char lc[16];
      ref::aes_block(true, key.data(), pt, lc);
      if (memcmp(atS, S, 16) != 0 || memcmp(lc, ct, 16) != 0) return "internal|round-state construction does not reproduce itself (harness defect, not a verdict)";
      alignas(16) unsigned char w[16];
      memcpy(w, pt, 16);
      e.runaes_128bit(w);
      evals++;
      std::string where = " (round " + std::to_string(r) + ", column " + std::to_string(col) + " = " + hex(pat, 4) + " " + FN[fam] + ")";
      if (memcmp(w, lc, 16) != 0) return "#" + std::to_string(evals) + "#encrypt-differs|AES-128(" + hex(key) + ", " + hex(pt, 16) + ") gives " + hex(w, 16) + ", FIPS-197 says " + hex(lc, 16) + where;
      d.runaes_128bit(w);
      if (memcmp(w, pt, 16) != 0) return "#" + std::to_string(evals) + "#decrypt-not-inverse|decrypt(encrypt(x)) != x for key " + hex(key) + " block " + hex(pt, 16) + where;
    }
  return "#" + std::to_string(evals) + "#";
}

// ================================================================ C10
static const char *MN[] = {"ECB", "CBC", "CTR", "CFB", "OFB"};
static Bytes c10_iv(int kind) {
  if (kind <= 16) { Bytes iv = unhex("0f0e0d0c0b0a09080706050403020100"); for (int i = 0; i < kind; i++) iv[15 - i] = 0xff; return iv; } // last `kind` bytes are FF
  if (kind == 17) return unhex("000102030405060708090a0b0c0d0e0f");
  if (kind == 18) return Bytes(16, 0);
  return unhex("f0f1f2f3f4f5f6f7f8f9fafbfcfdfeff");
}
static const char *C10_BLOCKS[4] = {"6bc1bee22e409f96e93d7e117393172a", "00000000000000000000000000000000", "ffffffffffffffffffffffffffffffff", "0123456789abcdeffedcba9876543210"};
static std::string c10_check(int cm, const unsigned char *key, const Bytes &iv, const Bytes &in, const std::string &what) {
  AesFactory f((u8_t *)key, iv.data());
  // encryptor vs reference, block by block through the stream object
  Aesmode *e = f.createCryMaster(true, (u8_t)cm);
  if (!e) return std::string("factory-null:") + MN[cm] + "|no encryptor for mode " + std::to_string(cm);
  Bytes out = in;
  static unsigned placement = 0;
  std::vector<unsigned char> al(16 + in.size() + 32);
  unsigned char *p = al.data() + ((16 - ((uintptr_t)al.data() & 15)) & 15) + (placement++ & 15); // working copy at every offset 0..15 from a 16-byte boundary in turn (the interface takes a plain u8_t*)
  memcpy(p, in.data(), in.size());
  for (size_t o = 0; o < in.size(); o += 16) e->runcry(p + o);
  memcpy(out.data(), p, in.size());
  { // the same stream fed through ONE reused, wiped 16-byte block: a stream object must not depend on the caller keeping earlier blocks
    Aesmode *e2 = f.createCryMaster(true, (u8_t)cm);
    alignas(16) unsigned char scratch[16];
    Bytes out2 = in;
    for (size_t o = 0; o < in.size(); o += 16) { memcpy(scratch, in.data() + o, 16); e2->runcry(scratch); memcpy(out2.data() + o, scratch, 16); memset(scratch, 0xEE, 16); }
    delete e2;
    if (out2 != out) return std::string("encrypt-depends-on-callers-buffer:") + MN[cm] + "|" + MN[cm] + " encryptor gives a different stream when every block is passed in the same reused 16-byte buffer (" + what + ")";
  }
  Bytes exp = in;
  { ref::Stream s(cm, true, key, iv.data()); s.process(exp.data(), exp.size()); }
  delete e;
  if (out != exp) { size_t i = 0; while (out[i] == exp[i]) i++; return std::string("encrypt-differs:") + MN[cm] + "|" + MN[cm] + " encryptor differs from SP 800-38A at block " + std::to_string(i / 16) + " (" + what + ")"; }
  // decryptor restores the input
  Aesmode *d = f.createCryMaster(false, (u8_t)cm);
  if (!d) return std::string("factory-null:") + MN[cm] + "|no decryptor for mode " + std::to_string(cm);
  for (size_t o = 0; o < in.size(); o += 16) d->runcry(p + o);
  delete d;
  {
    Aesmode *d3 = f.createCryMaster(false, (u8_t)cm);
    alignas(16) unsigned char scratch[16];
    Bytes back = out;
    for (size_t o = 0; o < out.size(); o += 16) { memcpy(scratch, out.data() + o, 16); d3->runcry(scratch); memcpy(back.data() + o, scratch, 16); memset(scratch, 0xEE, 16); }
    delete d3;
    if (back != in) return std::string("decrypt-depends-on-callers-buffer:") + MN[cm] + "|" + MN[cm] + " decryptor does not restore the plaintext when every block is passed in the same reused 16-byte buffer (" + what + ")";
  }
  if (memcmp(p, in.data(), in.size()) != 0) return std::string("decrypt-not-inverse:") + MN[cm] + "|" + MN[cm] + " decryptor does not restore the plaintext (" + what + ")";
  // decryptor on arbitrary input vs reference decryption
  Aesmode *d2 = f.createCryMaster(false, (u8_t)cm);
  memcpy(p, in.data(), in.size());
  for (size_t o = 0; o < in.size(); o += 16) d2->runcry(p + o);
  delete d2;
  Bytes expd = in;
  { ref::Stream s(cm, false, key, iv.data()); s.process(expd.data(), expd.size()); }
  if (memcmp(p, expd.data(), in.size()) != 0) return std::string("decrypt-differs:") + MN[cm] + "|" + MN[cm] + " decryptor differs from SP 800-38A (" + what + ")";
  return "";
}
// one AesFactory object driven through ALL operation sequences up to length 4 over {loadiv(A), loadiv(B), create(enc, m1), create(dec, m1),
// create(enc, m2), create(dec, m2)}: every object must behave like SP 800-38A under the IV that was current when it was created, and
// objects created earlier must go on undisturbed (runcrypt uses exactly this interface: one factory, loadiv, then T objects)
static std::string c10_factory(const Case &c) {
  int m1 = (int)c.num("m1"), m2 = (int)c.num("m2");
  Bytes key = unhex("2b7e151628aed2a6abf7158809cf4f3c"), ivA = c10_iv(17), ivB = c10_iv(2), blk[3] = {unhex(C10_BLOCKS[0]), unhex(C10_BLOCKS[3]), unhex(C10_BLOCKS[1])};
  long evals = 0;
  for (int len = 1; len <= 4; len++) {
    int total = 1;
    for (int i = 0; i < len; i++) total *= 6;
    for (int code = 0; code < total; code++) {
      AesFactory f(key.data(), ivA.data());
      const Bytes *cur = &ivA;
      struct Live { Aesmode *o; ref::Stream *r; int n; std::string what; };
      std::vector<Live> live;
      std::string hist, bad;
      int q = code;
      for (int i = 0; i < len && bad.empty(); i++, q /= 6) {
        int op = q % 6;
        if (op < 2) { cur = op ? &ivB : &ivA; f.loadiv(cur->data()); hist += op ? " loadiv(B)" : " loadiv(A)"; continue; }
        bool enc = (op % 2) == 0;
        int cm = op < 4 ? m1 : m2;
        hist += std::string(enc ? " create(enc," : " create(dec,") + MN[cm] + ")";
        Aesmode *o = f.createCryMaster(enc, (u8_t)cm);
        if (!o) { bad = std::string("factory-null:") + MN[cm] + "|no object for mode " + std::to_string(cm); break; }
        live.push_back({o, new ref::Stream(cm, enc, key.data(), cur->data()), 0, std::string(enc ? "encryptor " : "decryptor ") + MN[cm] + " created under IV " + (cur == &ivA ? "A" : "B")});
        // every live object takes one more block (the new one three)
        for (size_t k = 0; k < live.size() && bad.empty(); k++)
          for (int rep = 0; rep < (k + 1 == live.size() ? 3 : 1); rep++) {
            Live &L = live[k];
            alignas(16) unsigned char w[16], e[16];
            memcpy(w, blk[L.n % 3].data(), 16);
            memcpy(e, w, 16);
            L.o->runcry(w);
            L.r->process(e, 16);
            L.n++;
            evals++;
            if (memcmp(w, e, 16) != 0) { bad = std::string("factory-sequence:") + MN[cm] + "|after the factory operations [" + hist + " ] the " + L.what + " differs from SP 800-38A at its block " + std::to_string(L.n - 1); break; }
          }
      }
      for (auto &L : live) { delete L.o; delete L.r; }
      if (!bad.empty()) return "#" + std::to_string(evals) + "#" + bad;
    }
  }
  return "#" + std::to_string(evals) + "#";
}
static std::string c10_seq(const Case &c) {
  int cm = (int)c.num("cm"), k = (int)c.num("k"), ivk = (int)c.num("iv");
  Bytes iv = c10_iv(ivk);
  long evals = 0;
  // quick: all sequences of length 0..4 over a 3-block alphabet (121); thorough: length 0..5 over a 4-block alphabet (1,365)
  const int A = THOROUGH ? 4 : 3, maxlen = THOROUGH ? 5 : 4;
  for (int len = 0; len <= maxlen; len++) {
    int cnt = 1;
    for (int i = 0; i < len; i++) cnt *= A;
    for (int s = 0; s < cnt; s++) {
      Bytes in;
      int t = s;
      for (int i = 0; i < len; i++) { Bytes b = unhex(C10_BLOCKS[t % A]); in.insert(in.end(), b.begin(), b.end()); t /= A; }
      evals++;
      std::string r = c10_check(cm, fo::KEYS[k == 0 ? 3 : k], iv, in, "iv kind " + std::to_string(ivk) + ", sequence " + std::to_string(s) + " of length " + std::to_string(len));
      if (!r.empty()) return "#" + std::to_string(evals) + "#" + r;
    }
  }
  return "#" + std::to_string(evals) + "#";
}
static std::string c10_long(const Case &c) {
  int cm = (int)c.num("cm"), ivk = (int)c.num("iv");
  size_t nb = (size_t)c.num("blocks");
  Bytes in(nb * 16);
  for (size_t i = 0; i < in.size(); i++) in[i] = (unsigned char)((i * 2654435761u) >> 11);
  return c10_check(cm, fo::KEYS[3], c10_iv(ivk), in, "iv kind " + std::to_string(ivk) + ", " + std::to_string(nb) + " blocks");
}

// ================================================================ C16
static const char B64ABC[] = "ABCDEFGHIJKLMNOPQRSTUVWXYZabcdefghijklmnopqrstuvwxyz0123456789+/";
static std::string ref_b64(const unsigned char *p, size_t n) {
  std::string o;
  size_t i = 0;
  for (; i + 3 <= n; i += 3) { uint32_t v = (p[i] << 16) | (p[i + 1] << 8) | p[i + 2]; o += B64ABC[v >> 18]; o += B64ABC[(v >> 12) & 63]; o += B64ABC[(v >> 6) & 63]; o += B64ABC[v & 63]; }
  if (n - i == 1) { uint32_t v = p[i] << 16; o += B64ABC[v >> 18]; o += B64ABC[(v >> 12) & 63]; o += "=="; }
  else if (n - i == 2) { uint32_t v = (p[i] << 16) | (p[i + 1] << 8); o += B64ABC[v >> 18]; o += B64ABC[(v >> 12) & 63]; o += B64ABC[(v >> 6) & 63]; o += "="; }
  return o;
}
static int b64val(int ch) { const char *q = (ch > 0 && ch < 128) ? strchr(B64ABC, ch) : nullptr; return (q && ch) ? (int)(q - B64ABC) : -1; }
static std::string c16_enc3(const Case &c) { // all 3-byte groups with this first byte
  int b0 = (int)c.num("b0");
  long evals = 0;
  for (int b1 = 0; b1 < 256; b1++)
    for (int b2 = 0; b2 < 256; b2++) {
      unsigned char in[3] = {(unsigned char)b0, (unsigned char)b1, (unsigned char)b2};
      unsigned char out[12];
      memset(out, 0xAA, sizeof out);
      hex_to_base64(in, 3, out);
      evals++;
      std::string e = ref_b64(in, 3);
      if (memcmp(out, e.data(), 4) != 0) return "#" + std::to_string(evals) + "#encode-differs|3-byte group " + hex(in, 3) + " encodes to '" + std::string((char *)out, 4) + "', RFC 4648 says '" + e + "'";
      if (out[4] != 0 || out[5] != 0xAA) return "#" + std::to_string(evals) + "#encode-terminator|no NUL right after the output (or wrote beyond it)";
      unsigned char back[8];
      memset(back, 0xAA, sizeof back);
      base64_to_hex(out, 4, back);
      if (memcmp(back, in, 3) != 0 || back[3] != 0xAA) return "#" + std::to_string(evals) + "#decode-not-inverse|decode(encode(" + hex(in, 3) + ")) differs";
    }
  return "#" + std::to_string(evals) + "#";
}
static std::string c16_tails(const Case &) {
  long evals = 0;
  for (int n = 1; n <= 2; n++)
    for (int v = 0; v < (n == 1 ? 256 : 65536); v++) {
      unsigned char in[2] = {(unsigned char)(v & 0xff), (unsigned char)(v >> 8)};
      unsigned char out[12];
      memset(out, 0xAA, sizeof out);
      hex_to_base64(in, n, out);
      evals++;
      std::string e = ref_b64(in, n);
      if (memcmp(out, e.data(), 4) != 0 || out[4] != 0) return "#" + std::to_string(evals) + "#encode-differs|" + std::to_string(n) + "-byte tail " + hex(in, n) + " encodes to '" + std::string((char *)out, 4) + "', RFC 4648 says '" + e + "'";
      unsigned char back[8];
      memset(back, 0xAA, sizeof back);
      base64_to_hex(out, 4, back);
      if (memcmp(back, in, n) != 0 || back[n] != 0xAA) return "#" + std::to_string(evals) + "#decode-not-inverse|padded tail " + e + " does not decode to its " + std::to_string(n) + " byte(s)";
    }
  for (int n = 0; n <= 40; n++) { // lengths 0..40 of a counter pattern, NUL terminator, exact output length
    Bytes in(n);
    for (int i = 0; i < n; i++) in[i] = (unsigned char)(i * 37 + 11);
    Bytes out(80, 0xAA);
    hex_to_base64(in.data(), n, out.data());
    evals++;
    std::string e = ref_b64(in.data(), n);
    if (memcmp(out.data(), e.data(), e.size()) != 0 || out[e.size()] != 0 || out[e.size() + 1] != 0xAA) return "#" + std::to_string(evals) + "#encode-differs|length " + std::to_string(n) + " message";
    Bytes back(64, 0xAA);
    base64_to_hex(out.data(), (int)e.size(), back.data());
    if (memcmp(back.data(), in.data(), n) != 0 || back[n] != 0xAA) return "#" + std::to_string(evals) + "#decode-not-inverse|length " + std::to_string(n) + " message";
  }
  return "#" + std::to_string(evals) + "#";
}
static std::string c16_dec4(const Case &c) { // all 4-symbol groups starting with these two symbols, and the padded tails
  int s0 = (int)c.num("s0"), s1 = (int)c.num("s1");
  long evals = 0;
  for (int s2 = 0; s2 < 64; s2++)
    for (int s3 = 0; s3 < 64; s3++) {
      unsigned char in[4] = {(unsigned char)B64ABC[s0], (unsigned char)B64ABC[s1], (unsigned char)B64ABC[s2], (unsigned char)B64ABC[s3]};
      unsigned char out[8];
      memset(out, 0xAA, sizeof out);
      base64_to_hex(in, 4, out);
      evals++;
      uint32_t v = (s0 << 18) | (s1 << 12) | (s2 << 6) | s3;
      if (out[0] != (v >> 16) || out[1] != ((v >> 8) & 255) || out[2] != (v & 255) || out[3] != 0xAA) return "#" + std::to_string(evals) + "#decode-differs|group '" + std::string((char *)in, 4) + "'";
    }
  for (int s2 = 0; s2 < 64; s2++) { // xxx=
    unsigned char in[4] = {(unsigned char)B64ABC[s0], (unsigned char)B64ABC[s1], (unsigned char)B64ABC[s2], '='};
    unsigned char out[8];
    memset(out, 0xAA, sizeof out);
    base64_to_hex(in, 4, out);
    evals++;
    uint32_t v = (s0 << 18) | (s1 << 12) | (s2 << 6);
    if (out[0] != (v >> 16) || out[1] != ((v >> 8) & 255) || out[2] != 0xAA) return "#" + std::to_string(evals) + "#decode-differs|padded group '" + std::string((char *)in, 4) + "'";
  }
  { // xx==
    unsigned char in[4] = {(unsigned char)B64ABC[s0], (unsigned char)B64ABC[s1], '=', '='};
    unsigned char out[8];
    memset(out, 0xAA, sizeof out);
    base64_to_hex(in, 4, out);
    evals++;
    uint32_t v = (s0 << 18) | (s1 << 12);
    if (out[0] != (v >> 16) || out[1] != 0xAA) return "#" + std::to_string(evals) + "#decode-differs|padded group '" + std::string((char *)in, 4) + "'";
  }
  return "#" + std::to_string(evals) + "#";
}
// validator oracle with an explicit don't-care class
enum { V_MUST_ACCEPT, V_MUST_REJECT, V_DONTCARE };
static int v_class(const std::string &s) {
  if (s.size() != 24) return V_MUST_REJECT;
  for (int i = 0; i < 22; i++) if (b64val((unsigned char)s[i]) < 0) return V_MUST_REJECT;
  if (s[22] != '=' || s[23] != '=') return V_MUST_REJECT;
  return (b64val((unsigned char)s[21]) & 15) == 0 ? V_MUST_ACCEPT : V_DONTCARE;
}
static std::string v_check(const std::string &s, const char *ctx) {
  bool acc = is_valid_b64((const u8_t *)s.c_str(), (int)s.size());
  int cl = v_class(s);
  std::string shown;
  for (unsigned char ch : s) shown += (ch >= 0x20 && ch < 0x7f) ? std::string(1, (char)ch) : "\\x" + hex(&ch, 1);
  if (cl == V_MUST_ACCEPT && !acc) return std::string("validator-rejects-valid-key|'") + shown + "' is the canonical encoding of a 16-byte value but is rejected (" + ctx + ")";
  if (cl == V_MUST_REJECT && acc) {
    int eq = 0;
    for (char ch : s) eq += ch == '=';
    std::string why = s.size() != 24 ? "wrong-length" : (eq != 2 ? "padding-count-" + std::to_string(eq) : "bad-symbol-or-padding-position");
    return "validator-accepts-non-key:" + why + "|'" + shown + "' (" + std::to_string(s.size()) + " chars) is not the encoding of a 16-byte value but is accepted (" + ctx + ")";
  }
  if (acc) { // whatever is accepted is decoded the way getArgsKey does: 24 chars into new u8_t[16]; ASan guards the buffer
    u8_t *k = new u8_t[16];
    base64_to_hex((const u8_t *)s.c_str(), 24, k);
    if (cl == V_MUST_ACCEPT) {
      std::string back = ref_b64(k, 16);
      if (back != s) { delete[] k; return "accepted-key-decodes-wrong|'" + shown + "' decodes to " + hex(k, 16); }
    }
    delete[] k;
  }
  return "";
}
static std::string canon24(int variant) {
  unsigned char k[16];
  for (int i = 0; i < 16; i++) k[i] = (unsigned char)(i * 29 + 3 + variant * 71);
  return ref_b64(k, 16);
}
static std::string c16_eqmask(const Case &c) { // all placements of '=' with these top 8 mask bits
  int hi = (int)c.num("hi");
  std::string base = canon24(0);
  for (int i = 22; i < 24; i++) base[i] = 'Q'; // valid filler everywhere; '=' only where the mask says
  base[21] = 'A';
  long evals = 0;
  for (uint32_t lo = 0; lo < 65536; lo++) {
    uint32_t mask = ((uint32_t)hi << 16) | lo;
    std::string s = base;
    for (int i = 0; i < 24; i++) if (mask & (1u << i)) s[i] = '=';
    evals++;
    std::string r = v_check(s, "'=' placement mask");
    if (!r.empty()) return "#" + std::to_string(evals) + "#" + r;
  }
  return "#" + std::to_string(evals) + "#";
}
static std::string c16_validator_misc(const Case &c) {
  int part = (int)c.num("part");
  long evals = 0;
  std::string r;
  if (part == 0) { // every length 0..40: all-valid symbols, and properly padded shapes
    for (int n = 0; n <= 40 && r.empty(); n++) {
      std::string s(n, 'A');
      evals++; r = v_check(s, "length sweep, no padding");
      if (n >= 2 && r.empty()) { s[n - 1] = '='; evals++; r = v_check(s, "length sweep, one '='"); if (r.empty()) { s[n - 2] = '='; evals++; r = v_check(s, "length sweep, two '='"); } }
    }
  } else if (part == 1) { // every byte value at every position of canonical strings
    for (int var = 0; var < 3 && r.empty(); var++)
      for (int pos = 0; pos < 24 && r.empty(); pos++)
        for (int v = 1; v < 256 && r.empty(); v++) { std::string s = canon24(var); s[pos] = (char)v; evals++; r = v_check(s, "one byte replaced"); }
  } else if (part == 2) { // two positions x character classes
    const unsigned char cl[] = {'A', 'z', '5', '+', '/', '=', '-', '_', ' ', '\n', 0x80, 0xff, '.'};
    for (int p = 0; p < 24 && r.empty(); p++)
      for (int q = p + 1; q < 24 && r.empty(); q++)
        for (unsigned char a : cl)
          for (unsigned char b : cl) { if (!r.empty()) break; std::string s = canon24(1); s[p] = (char)a; s[q] = (char)b; evals++; r = v_check(s, "two bytes replaced"); }
  } else if (part == 3) { // 22nd symbol: all 64 values (low bits are don't-care when non-zero), last two: all 65x65 combinations
    for (int v = 0; v < 64 && r.empty(); v++) { std::string s = canon24(2); s[21] = B64ABC[v]; evals++; r = v_check(s, "unused trailing bits"); }
    const std::string al = std::string(B64ABC) + "=";
    for (char a : al) for (char b : al) { if (!r.empty()) break; std::string s = canon24(2); s[22] = a; s[23] = b; evals++; r = v_check(s, "last two characters"); }
  } else { // keys as printed at encryption: every byte position x every value
    for (int pos = 0; pos < 16 && r.empty(); pos++)
      for (int v = 0; v < 256 && r.empty(); v++) {
        unsigned char k[16];
        for (int i = 0; i < 16; i++) k[i] = (unsigned char)(i * 17);
        k[pos] = (unsigned char)v;
        char txt[128];
        memset(txt, 0x55, sizeof txt);
        hex_to_base64(k, 16, (u8_t *)txt);
        evals++;
        if (strlen(txt) != 24) { r = "printed-key-length|printed key has " + std::to_string(strlen(txt)) + " characters"; break; }
        if (!is_valid_b64((const u8_t *)txt, 24)) { r = "printed-key-rejected|the key text printed for " + hex(k, 16) + " ('" + txt + "') is not accepted by the validator"; break; }
        u8_t *back = new u8_t[16];
        base64_to_hex((const u8_t *)txt, 24, back);
        if (memcmp(back, k, 16) != 0) r = "printed-key-decodes-differently|'" + std::string(txt) + "' decodes to " + hex(back, 16) + " instead of " + hex(k, 16);
        delete[] back;
      }
  }
  return "#" + std::to_string(evals) + "#" + r;
}

// ================================================================ tables of cases
static void build(const Args &a, std::vector<Case> &out) {
  auto add = [&](Case c, const std::string &cls) { c.cls = cls; out.push_back(c); };
  if (MODE == "c07") {
    std::string sub = a.str("sub", "all");
    if (sub == "big" || sub == "big1") {
      std::vector<const char *> lens = {"536870911", "536870912", "536870913", "536870969"};
      if (sub == "big1") lens = {"536870912"}; // quick tier: exactly 2^32 bits
      for (int algo = 0; algo < 3; algo++)
        for (const char *n : lens) add(Case().set("g", "big").set("algo", algo).set("len", n), std::string("big:") + AN[algo] + ":" + n);
      return;
    }
    if (sub == "all" || sub == "string")
      for (int algo = 0; algo < 3; algo++)
        for (int rel = 0; rel < 8; rel++) add(Case().set("g", "blockpairs").set("algo", algo).set("rel", rel), std::string("related-blocks:") + AN[algo] + ":rel=" + std::to_string(rel));
    if (sub == "all" || sub == "string")
      for (int algo = 0; algo < 3; algo++)
        for (int n = 0; n <= 320; n++) add(Case().set("g", "str").set("algo", algo).set("len", n), std::string("string:") + AN[algo] + ":len%64=" + std::to_string(n % 64) + ":blocks=" + std::to_string(n / 64));
    if (sub == "all" || sub == "file")
      for (int algo = 0; algo < 3; algo++)
        for (size_t n = 0; n <= 3 * R + 65; n++)
          for (int pre = 0; pre < 2; pre++)
            for (int off = 0; off < 4; off++) {
              if (!THOROUGH && off && (n % 4)) continue;
              for (int ct : {2, 1, 0}) { // counter pattern; all 0xFF (reads as EOF through a signed char); all 0x00 (reads as a C-string terminator)
                if (ct != 2 && off) continue;
                add(Case().set("g", "file").set("algo", algo).set("len", (long)n).set("pre", pre).set("off", off).set("ct", ct), std::string("file:") + AN[algo] + ":R=" + std::to_string(R) + ":len%64=" + std::to_string(n % 64) + ":refills=" + std::to_string(n / R) + ":pre=" + std::to_string(pre) + (ct == 2 ? "" : ct == 1 ? ":FF" : ":00"));
              }
            }
  } else if (MODE == "c08") {
    for (int hm = 0; hm < 3; hm++)
      for (int k = 0; k < 5; k++)
        for (size_t n = 0; n <= 3 * R + 65; n++) {
          if (!THOROUGH && k && (n % 3)) continue;
          add(Case().set("g", "hmac").set("hm", hm).set("k", k).set("len", (long)n), std::string("hmac:") + AN[hm] + ":len%64=" + std::to_string(n % 64) + ":refills=" + std::to_string(n / R));
        }
    for (int hm = 0; hm < 3; hm++)
      for (int pos = 0; pos < 16; pos++) add(Case().set("g", "keypos").set("hm", hm).set("pos", pos), std::string("keypos:") + AN[hm] + ":byte=" + std::to_string(pos));
    for (int order = 0; order < 8; order++) add(Case().set("g", "reuse").set("order", order), "reuse:order=" + std::to_string(order));
    for (int T : {1, 2, 3, 4, 5, 16})
      for (int cm : {0, 1, 2})
        for (int hm = 0; hm < 3; hm++)
          for (size_t n = 0; n <= 2 * fo::S + 17; n += (THOROUGH ? 1 : 3))
            add(Case().set("g", "filetag").set("T", T).set("cm", cm).set("hm", hm).set("k", (long)(n % 5)).set("n", (long)n), "filetag:T=" + std::to_string(T) + ":hm=" + std::to_string(hm) + ":innerlen%64=" + std::to_string((64 + 20 * T + 16 * (n / 16 + 1)) % 64));
  } else if (MODE == "c09") {
    add(Case().set("g", "tables"), "tables");
    int nb = THOROUGH ? 8 : 1;
    for (int b = 0; b < nb; b++)
      for (int kp = 0; kp < 16; kp++)
        for (int kv = 0; kv < 256; kv++) add(Case().set("g", "dev").set("base", b).set("kp", kp).set("kv", kv), "dev:base=" + std::to_string(b) + ":keybyte=" + std::to_string(kp));
    if (!THOROUGH)
      for (int b = 1; b < 4; b++)
        for (int kp = 0; kp < 16; kp++)
          for (int kv = 0; kv < 256; kv += 5) add(Case().set("g", "dev").set("base", b).set("kp", kp).set("kv", kv).set("bstep", 5), "dev:base=" + std::to_string(b) + ":keybyte=" + std::to_string(kp));
    for (int b = 0; b < (THOROUGH ? 8 : 4); b++)
      for (int kb = 0; kb < 128; kb++) add(Case().set("g", "bits").set("base", b).set("kb", kb), "bits:base=" + std::to_string(b));
    for (int b = 0; b < (THOROUGH ? 8 : 2); b++)
      for (int r = 1; r <= 9; r++)
        for (int col = 0; col < 4; col++)
          for (int fam = 0; fam < 3; fam++) add(Case().set("g", "rstate").set("base", b).set("r", r).set("col", col).set("fam", fam), "rstate:round=" + std::to_string(r) + ":col=" + std::to_string(col) + ":fam=" + std::to_string(fam));
  } else if (MODE == "c10") {
    for (int cm = 0; cm < 5; cm++)
      for (int k = 0; k < 3; k++)
        for (int iv = 0; iv < 20; iv++) add(Case().set("g", "seq").set("cm", cm).set("k", k).set("iv", iv), std::string("seq:") + MN[cm] + ":iv=" + std::to_string(iv));
    for (int cm = 0; cm < 5; cm++)
      for (int iv : {1, 2, 3, 16, 17})
        for (long nb : {300L, 65539L}) { if (!THOROUGH && nb > 300 && iv != 2 && iv != 17) continue; add(Case().set("g", "long").set("cm", cm).set("iv", iv).set("blocks", nb), std::string("long:") + MN[cm] + ":blocks=" + std::to_string(nb)); }
    for (int m1 = 0; m1 < 5; m1++)
      for (int m2 = 0; m2 < 5; m2++) add(Case().set("g", "factory").set("m1", m1).set("m2", m2), std::string("factory:") + MN[m1] + "," + MN[m2]);
    if (THOROUGH) // 2^20+3 blocks: the counter / the feedback register after more than a million steps (carry through three bytes for IV kinds 0..2)
      for (int cm = 1; cm < 5; cm++)
        for (int iv : {0, 2, 17}) add(Case().set("g", "long").set("cm", cm).set("iv", iv).set("blocks", 1048579L), std::string("long:") + MN[cm] + ":blocks=2^20+3");
  } else if (MODE == "c16") {
    for (int b0 = 0; b0 < 256; b0++) add(Case().set("g", "enc3").set("b0", b0), "enc3");
    add(Case().set("g", "tails"), "tails");
    for (int s0 = 0; s0 < 64; s0++)
      for (int s1 = 0; s1 < 64; s1++) { if (!THOROUGH && s1 != 0 && s1 != 63 && s1 != s0) continue; add(Case().set("g", "dec4").set("s0", s0).set("s1", s1), "dec4"); }
    for (int hi = 0; hi < 256; hi++) add(Case().set("g", "eqmask").set("hi", hi), "eqmask:top-bits-set=" + std::to_string(__builtin_popcount(hi)));
    for (int part = 0; part < 5; part++) add(Case().set("g", "vmisc").set("part", part), "validator-part=" + std::to_string(part));
  }
}
static std::string run_case(const Case &c) {
  std::string g = c.str("g");
  if (g == "str") return c07_string(c);
  if (g == "blockpairs") return c07_blockpairs(c);
  if (g == "file") return c07_file(c);
  if (g == "big") return c07_big(c);
  if (g == "hmac") return c08_hmac(c);
  if (g == "filetag") return c08_filetag(c);
  if (g == "reuse") return c08_reuse(c);
  if (g == "keypos") return c08_keypos(c);
  if (g == "tables") return c09_tables(c);
  if (g == "dev") return c09_dev(c);
  if (g == "bits") return c09_bits(c);
  if (g == "rstate") return c09_rstate(c);
  if (g == "seq") return c10_seq(c);
  if (g == "long") return c10_long(c);
  if (g == "factory") return c10_factory(c);
  if (g == "enc3") return c16_enc3(c);
  if (g == "tails") return c16_tails(c);
  if (g == "dec4") return c16_dec4(c);
  if (g == "eqmask") return c16_eqmask(c);
  if (g == "vmisc") return c16_validator_misc(c);
  return "internal|unknown case group";
}

int main(int argc, char **argv) {
  { std::string w; if (ref::selftest(w)) { fprintf(stderr, "reference self-test failed: %s\n", w.c_str()); return 9; } }
  Args a(argc, argv);
  MODE = a.str("mode", "c07");
  THOROUGH = a.str("tier", "quick") == "thorough";
  Spec sp;
  sp.harness = "cryptolib";
  sp.build = build;
  sp.run = run_case;
  sp.on_death = [](const Case &c, const CaseResult &cr) {
    std::string how = cr.exitcode == 77 ? "memory-error(ASan)" : cr.timeout ? "hang" : cr.exitcode == 42 ? "deadlock" : "crash";
    return "abnormal-end:" + how + ":" + c.str("g") + "|library call did not return normally (" + describe_death(cr) + ")";
  };
  sp.alarm_s = (MODE == "c07" && a.str("sub").rfind("big", 0) == 0) ? 1200 : 120;
  return main_loop(argc, argv, sp);
}
