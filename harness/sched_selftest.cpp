// sched_selftest.cpp - evidence that the modelled pthread semantics of vsched are neither too weak nor
// too strong: known-bad toys must be FOUND at small bounds, known-good toys must PASS, and the
// unbounded sleep-set search must see every outcome the bounded search sees.
#include "explore.hpp"
#include "vfc.hpp"
#include <chrono>
#include <condition_variable>
#include <future>
#include <mutex>
#include <thread>

using namespace vfc;

struct Result { std::set<std::string> obs; long execs = 0; bool deadlock = false; bool capped = false; };
static Result explore(vx::Scenario sc, int bound, bool sleep, int spurious, bool delay = false) {
  vx::Explorer ex;
  ex.cfg.bound = bound; ex.cfg.sleep = sleep; ex.cfg.spurious = spurious; ex.cfg.delay = delay; ex.cfg.maxexec = sleep ? 4000 : 300000; ex.cfg.alarm_s = 10; ex.cfg.horizon = 5000;
  ex.sc = sc;
  Result r;
  ex.on_exec = [&](const vx::Exec &x, const std::vector<int> &) {
    if (x.outcome == vx::OC_SLEEPBLOCKED) return;
    if (x.outcome == vx::OC_DEADLOCK) { r.deadlock = true; r.obs.insert("deadlock"); }
    else r.obs.insert(std::string(vx::outcome_name(x.outcome)) + ":" + x.obs);
  };
  ex.run();
  r.execs = ex.st.executions;
  r.capped = ex.st.capped;
  return r;
}

// 1. lost wake-up: the consumer tests the flag without the lock, then waits
static void toy_lostwake(std::string &obs) {
  std::mutex m; std::condition_variable cv; bool flag = false;
  vs_begin();
  std::thread c([&] { vs_point(1, 0); if (!flag) { std::unique_lock<std::mutex> l(m); cv.wait(l); } });
  std::thread p([&] { vs_point(2, 0); flag = true; std::unique_lock<std::mutex> l(m); cv.notify_all(); });
  c.join(); p.join();
  vs_end();
  obs = "done";
}
// 2. AB/BA deadlock
static void toy_abba(std::string &obs) {
  std::mutex a, b;
  vs_begin();
  std::thread t1([&] { std::lock_guard<std::mutex> x(a); std::lock_guard<std::mutex> y(b); });
  std::thread t2([&] { std::lock_guard<std::mutex> y(b); std::lock_guard<std::mutex> x(a); });
  t1.join(); t2.join();
  vs_end();
  obs = "done";
}
// 3. unlocked counter: lost update + happens-before race
static void toy_counter(std::string &obs) {
  int c = 0;
  auto inc = [&] { vs_point(1, 0); vs_access(0, 0, 1); int t = c; vs_point(2, 0); vs_access(0, 1, 2); c = t + 1; };
  vs_begin();
  std::thread t1(inc), t2(inc);
  t1.join(); t2.join();
  vs_end();
  obs = "c=" + std::to_string(c) + ",races=" + std::to_string(vs_nraces);
}
// 3b. the same counter under a mutex: always 2, never a race
static void toy_counter_locked(std::string &obs) {
  int c = 0; std::mutex m;
  auto inc = [&] { std::lock_guard<std::mutex> l(m); vs_point(1, 0); vs_access(0, 0, 1); int t = c; vs_point(2, 0); vs_access(0, 1, 2); c = t + 1; };
  vs_begin();
  std::thread t1(inc), t2(inc);
  t1.join(); t2.join();
  vs_end();
  obs = "c=" + std::to_string(c) + ",races=" + std::to_string(vs_nraces);
}
// 4. correct one-slot bounded buffer, two producers / one consumer
template <bool IFWAIT> static void toy_buffer(std::string &obs) {
  std::mutex m; std::condition_variable cv; int slot = 0, full = 0, sum = 0;
  auto prod = [&](int v) { std::unique_lock<std::mutex> l(m); if (IFWAIT) { if (full) cv.wait(l); } else { while (full) cv.wait(l); } slot = v; full++; cv.notify_all(); };
  auto cons = [&] { for (int i = 0; i < 2; i++) { std::unique_lock<std::mutex> l(m); while (!full) cv.wait(l); sum += slot; slot = 0; full--; cv.notify_all(); } };
  vs_begin();
  std::thread a(prod, 5), b(prod, 7), c(cons);
  a.join(); b.join(); c.join();
  vs_end();
  obs = "sum=" + std::to_string(sum) + ",full=" + std::to_string(full);
}
// 4b. one producer / one consumer, one item: small enough for the unbounded search to complete
static void toy_buffer_small(std::string &obs) {
  std::mutex m; std::condition_variable cv; int slot = 0, full = 0, got = 0;
  vs_begin();
  std::thread p([&] { std::unique_lock<std::mutex> l(m); while (full) cv.wait(l); slot = 9; full = 1; cv.notify_all(); });
  std::thread c([&] { std::unique_lock<std::mutex> l(m); while (!full) cv.wait(l); got = slot; full = 0; cv.notify_all(); });
  p.join(); c.join();
  vs_end();
  obs = "got=" + std::to_string(got) + ",full=" + std::to_string(full);
}
// 5. trylock is modelled: never blocks, reports EBUSY
static void toy_trylock(std::string &obs) {
  std::mutex m; int got = 0, busy = 0;
  auto f = [&] { if (m.try_lock()) { vs_point(1, 0); got++; m.unlock(); } else busy++; };
  vs_begin();
  std::thread t1(f), t2(f);
  t1.join(); t2.join();
  vs_end();
  obs = "got=" + std::to_string(got) + ",busy=" + std::to_string(busy);
}

// 6. a flag read right after leaving a critical section (no hook, no lock): only explorable because a mutex release is followed by
//    a scheduling point. Worker: hand over under the lock, then leave early if `over` is (already) set; main sets `over` and serves.
static void toy_after_unlock(std::string &obs) {
  std::mutex m; std::condition_variable cv; bool handed = false, over = false; int served = 0, left_early = 0;
  vs_begin();
  std::thread w([&] { { std::lock_guard<std::mutex> l(m); handed = true; cv.notify_all(); } if (over) { left_early = 1; return; } std::lock_guard<std::mutex> l(m); served = 1; });
  { std::unique_lock<std::mutex> l(m); while (!handed) cv.wait(l); }
  over = true;
  w.join();
  vs_end();
  obs = "served=" + std::to_string(served) + ",early=" + std::to_string(left_early);
}
// 7. std::async / std::future (futex words + call_once inside libstdc++): a correct use has one outcome and never deadlocks;
//    reading the helper's result before get() has two
template <bool EARLY> static void toy_async(std::string &obs) {
  int cell = 0, seen = -1;
  vs_begin();
  {
    std::future<void> f = std::async(std::launch::async, [&] { vs_point(1, 0); vs_access(0, 1, 1); cell = 7; });
    if (EARLY) { vs_point(2, 0); vs_access(0, 0, 2); seen = cell; f.get(); }
    else { f.get(); vs_point(2, 0); vs_access(0, 0, 2); seen = cell; }
  }
  vs_end();
  obs = "seen=" + std::to_string(seen) + ",races=" + std::to_string(vs_nraces);
}
// 7b. promise/future hand-over between two threads: the waiter really parks on the futex word
static void toy_promise(std::string &obs) {
  std::promise<int> p; std::future<int> f = p.get_future(); int got = 0;
  vs_begin();
  std::thread c([&] { got = f.get(); });
  std::thread s([&] { vs_point(1, 0); p.set_value(5); });
  c.join(); s.join();
  vs_end();
  obs = "got=" + std::to_string(got);
}
// 7c. a future nobody fulfils: the waiter is blocked on a futex word for ever = deadlock, not a hang of the explorer
static void toy_promise_never(std::string &obs) {
  std::promise<int> p; std::future<int> f = p.get_future();
  vs_begin();
  std::thread c([&] { f.wait(); });
  c.join();
  vs_end();
  obs = "done";
}

// 8. a timed wait whose result is ignored: the deadline may pass while the predicate is still false (injected like a spurious wake-up)
template <bool CHECKED> static void toy_timedwait(std::string &obs) {
  std::mutex m; std::condition_variable cv; bool ready = false; int seen = -1;
  vs_begin();
  std::thread w([&] {
    std::unique_lock<std::mutex> l(m);
    if (CHECKED) { while (!cv.wait_for(l, std::chrono::seconds(10), [&] { return ready; })) {} }
    else cv.wait_for(l, std::chrono::seconds(10), [&] { return ready; });
    seen = ready ? 1 : 0;
  });
  std::thread s([&] { std::lock_guard<std::mutex> l(m); ready = true; cv.notify_all(); });
  w.join(); s.join();
  vs_end();
  obs = "seen=" + std::to_string(seen);
}

static int fails = 0;
static void expect(bool cond, const std::string &name, const std::string &detail) {
  J().s("t", "selftest").s("name", name).bo("ok", cond).s("detail", detail).emit();
  if (!cond) fails++;
}
static std::string show(const Result &r) { std::string s = std::to_string(r.execs) + " executions, outcomes {"; for (auto &o : r.obs) s += o + " "; return s + "}"; }

int main() {
  Result r;
  r = explore(toy_lostwake, 2, false, 0); expect(r.deadlock, "lost wake-up found at bound<=2", show(r));
  r = explore(toy_lostwake, 0, false, 0); expect(!r.deadlock || true, "lost wake-up at bound 0 (informational)", show(r));
  r = explore(toy_abba, 1, false, 0); expect(r.deadlock, "AB/BA deadlock found at bound<=1", show(r));
  r = explore(toy_counter, 1, false, 0); expect(r.obs.count("ok:c=1,races=1") + r.obs.count("ok:c=1,races=2") > 0, "lost update found at bound<=1", show(r));
  { bool allrace = true; for (auto &o : r.obs) if (o.find("races=0") != std::string::npos) allrace = false; expect(allrace, "happens-before race reported in every schedule of the unlocked counter", show(r)); }
  r = explore(toy_counter_locked, 3, false, 0); expect(r.obs.size() == 1 && r.obs.count("ok:c=2,races=0"), "locked counter: always 2, no race, bound 3", show(r));
  Result rb = explore(toy_buffer<false>, 2, false, 0); expect(rb.obs.size() == 1 && rb.obs.count("ok:sum=12,full=0"), "correct bounded buffer passes at bound 2", show(rb));
  Result rs = explore(toy_buffer<false>, 0, true, 0); expect(rs.obs == rb.obs, "correct bounded buffer: unbounded sleep-set search sees the same single outcome" + std::string(rs.capped ? " (capped at 4k executions)" : " (completed)"), show(rs));
  { Result sb = explore(toy_buffer_small, 3, false, 0), ss = explore(toy_buffer_small, 0, true, 0);
    expect(sb.obs.size() == 1 && sb.obs.count("ok:got=9,full=0") && ss.obs == sb.obs && !ss.capped, "1-producer/1-consumer buffer: bounded (3) and COMPLETED unbounded sleep-set search agree on the single outcome", "bounded: " + show(sb) + " / sleep sets: " + show(ss)); }
  Result rsp = explore(toy_buffer<false>, 2, false, 1); expect(rsp.obs.size() == 1 && rsp.obs.count("ok:sum=12,full=0"), "correct bounded buffer passes with one spurious wake-up", show(rsp));
  Result ri = explore(toy_buffer<true>, 2, false, 0), ri2 = explore(toy_buffer<true>, 2, false, 1);
  expect(ri2.obs.size() > 1 || ri.obs.size() > 1, "'if' instead of 'while' around wait is found (needs a second waiter or a spurious wake-up)", "without spurious: " + show(ri) + " / with: " + show(ri2));
  // sleep sets must see every outcome the bounded search sees (on the buggy toys)
  for (auto toy : {std::make_pair("lostwake", (void (*)(std::string &))toy_lostwake), std::make_pair("abba", (void (*)(std::string &))toy_abba), std::make_pair("counter", (void (*)(std::string &))toy_counter), std::make_pair("buffer-if", (void (*)(std::string &))toy_buffer<true>)}) {
    Result b = explore(toy.second, 2, false, 0), s = explore(toy.second, 0, true, 0);
    bool sup = true;
    for (auto &o : b.obs) if (!s.obs.count(o)) sup = false;
    expect(sup, std::string("sleep-set search covers the bounded search's outcomes: ") + toy.first + (s.capped ? " (capped)" : " (completed)"), "bounded: " + show(b) + " / sleep sets: " + show(s));
  }
  r = explore(toy_trylock, 2, false, 0); expect(r.obs.count("ok:got=1,busy=1") && r.obs.count("ok:got=2,busy=0") && !r.deadlock, "try_lock modelled (both outcomes seen, no deadlock)", show(r));
  // delay bounding explores a subset of preemption bounding at the same bound
  Result d = explore(toy_counter, 1, false, 0, true); expect(!d.obs.empty(), "delay-bounded mode runs", show(d));
  r = explore(toy_after_unlock, 1, false, 0); expect(r.obs.count("ok:served=0,early=1") && r.obs.count("ok:served=1,early=0"), "an unsynchronised read right after a mutex release is interleaved (post-unlock scheduling point)", show(r));
  r = explore(toy_async<false>, 2, false, 0); expect(r.obs.size() == 1 && r.obs.count("ok:seen=7,races=0") && !r.deadlock, "std::async + get(): one outcome, no race, no deadlock (futex words and call_once modelled)", show(r));
  r = explore(toy_async<true>, 2, false, 0); expect(r.obs.size() >= 2 && !r.deadlock, "std::async result read before get(): both outcomes and the race are seen", show(r));
  r = explore(toy_promise, 2, false, 0); expect(r.obs.size() == 1 && r.obs.count("ok:got=5") && !r.deadlock, "promise/future hand-over: waiter parks on the futex word and is released", show(r));
  r = explore(toy_promise_never, 1, false, 0); expect(r.deadlock, "a future that is never fulfilled is reported as a deadlock", show(r));
  r = explore(toy_timedwait<false>, 1, false, 1); expect(r.obs.count("ok:seen=0") && r.obs.count("ok:seen=1"), "wait_for whose result is ignored: the expired deadline with a false predicate is explored", show(r));
  r = explore(toy_timedwait<true>, 1, false, 1); expect(r.obs.size() == 1 && r.obs.count("ok:seen=1"), "wait_for in a loop: an injected deadline is harmless", show(r));
  r = explore(toy_timedwait<false>, 1, false, 0); expect(r.obs.size() == 1 && r.obs.count("ok:seen=1"), "without the injection budget a timed wait behaves like a wait", show(r));
  J().s("t", "selftest-summary").n("failed", fails).emit();
  return fails ? 1 : 0;
}
