// fileops.hpp - run wencry's whole-file operations (runcrypt::execute_*) on memfd files under the
// canonical schedule of vsched (default choice at every point: deterministic, so the verdict is a
// function of the input only; scheduling properties are C03/C04/C14's business).
#pragma once
#include <sys/stat.h>
#include "cry.h"
#include "ref.hpp"
#include "vfc.hpp"
#include "vsched.h"

namespace fo {
using ::Bytes;

static const size_t S = iobuffer::sum;

inline void fatal_exit(int code) { _exit(code == VS_DEADLOCK ? VS_EXIT_DEADLOCK : code == VS_HORIZON ? VS_EXIT_HORIZON : 49); }
// second deterministic schedule ("rr"): round robin at every scheduling point, with scheduling points also at every function entry/exit
// inside the cipher-stream code (those translation units are then built with -finstrument-functions): every worker is interleaved with
// every other one at the finest granularity the scheduler has - state that leaks between the per-worker streams changes the result
static int g_sched_policy = 0, g_streampoints = 0;
// the size argument of execute_*: documented as the file size, used for the progress display; the command line passes 0 when the size
// cannot be determined (FIFO, /dev/stdin). 0 = exact, 1 = zero ("unknown"), 2 = too large. No result may depend on it.
static int g_size_hint = 0;
inline size_t hinted(size_t n) { return g_size_hint == 1 ? 0 : g_size_hint == 2 ? 3 * n + 1000 : n; }
inline void canon_begin() {
  vs_policy = g_sched_policy;
  vs_nprefix = 0;
  vs_sleepmode = 0;
  vs_spurious = 0;
  vs_horizon = 2000000;
  vs_on_fatal = fatal_exit;
  vs_begin();
}
inline void canon_end() { vs_end(); }

} // namespace fo
extern "C" {
void __cyg_profile_func_enter(void *, void *) __attribute__((no_instrument_function));
void __cyg_profile_func_exit(void *, void *) __attribute__((no_instrument_function));
void __cyg_profile_func_enter(void *, void *) { if (fo::g_streampoints && vs_active() && vs_self() > 0) vs_point(300, -1); }
void __cyg_profile_func_exit(void *, void *) { if (fo::g_streampoints && vs_active() && vs_self() > 0) vs_point(301, -1); }
}
namespace fo {
struct OpResult {
  bool ret = false;
  Bytes out;          // bytes found in the output file afterwards
  bool input_intact = true;
  long leftover_live = 0; // bufferctrl::live_num after the call (process-wide state)
  bool instance_left = false;
};

// input files: one memfd per distinct content, kept for the life of the process, so that the same file (same inode, same size,
// same mtime) is presented again whenever the same bytes are - as when a user verifies a file and then decrypts it. A process-wide
// cache inside wencry keyed on file identity only shows with such reuse. The entry is dropped if an operation changed its input.
inline std::map<std::string, int> &input_cache() { static std::map<std::string, int> cache; return cache; }
inline int input_fd_for(const Bytes &d) {
  std::map<std::string, int> &cache = input_cache();
  std::string k((const char *)d.data(), d.size());
  auto it = cache.find(k);
  if (it != cache.end()) {
    if (vfc::slurp_fd(it->second) == d) { lseek(it->second, 0, SEEK_SET); return it->second; }
    close(it->second);
    cache.erase(it);
  }
  if (cache.size() >= 48) { for (auto &e : cache) close(e.second); cache.clear(); }
  int fd = vfc::memfd_with(d);
  cache[k] = fd;
  return fd;
}
// The file that was last presented with content `old` is altered IN PLACE to `neu` (same inode, same size; the modification time is
// put back, as `touch -r`, an archiver or anybody who tampers with a file would): the next operation given `neu` sees the very file
// an earlier operation of this process saw with other bytes. No-op if `old` was never presented or the sizes differ.
inline bool alter_in_place(const Bytes &old, const Bytes &neu) {
  std::map<std::string, int> &cache = input_cache();
  if (old.size() != neu.size() || old == neu) return false;
  auto it = cache.find(std::string((const char *)old.data(), old.size()));
  if (it == cache.end()) return false;
  int fd = it->second;
  struct stat st;
  if (fstat(fd, &st) != 0) return false;
  if (pwrite(fd, neu.data(), neu.size(), 0) != (ssize_t)neu.size()) return false;
  struct timespec ts[2] = {st.st_atim, st.st_mtim};
  futimens(fd, ts);
  cache.erase(it);
  std::string nk((const char *)neu.data(), neu.size());
  auto jt = cache.find(nk);
  if (jt != cache.end()) { close(jt->second); cache.erase(jt); }
  cache[nk] = fd;
  return true;
}
inline Bytes cstr_seed(const std::string &s) { Bytes b(s.begin(), s.end()); b.push_back(0); if (b.size() < 256) b.resize(256, 0); return b; }

// T: worker threads; seed: NUL-terminated, at most 255 characters
inline OpResult wc_encrypt(const Bytes &P, const unsigned char *key16, int cmode, int hmode, const std::string &seed, int T, const Bytes *preexisting_out = nullptr) {
  OpResult r;
  int ifd = vfc::memfd_with(P), ofd = vfc::memfd_with(preexisting_out ? *preexisting_out : Bytes());
  FILE *fi = vfc::fopen_fd(ifd, "rb"), *fout = vfc::fopen_fd(ofd, "wb+");
  unsigned char key[16];
  memcpy(key, key16, 16);
  Bytes sb = cstr_seed(seed);
  {
    Settings st((char)cmode, (char)hmode, true);
    runcrypt rc(fi, fout, key, st, (u8_t)T);
    canon_begin();
    r.ret = rc.execute_encrypt(hinted(P.size()), sb.data());
    canon_end();
  }
  r.out = vfc::slurp_fd(ofd);
  r.input_intact = (vfc::slurp_fd(ifd) == P);
  r.leftover_live = bufferctrl::live_num;
  r.instance_left = buffergroup::instance != NULL;
  close(ifd);
  close(ofd);
  return r;
}
inline OpResult wc_decrypt(const Bytes &F, const unsigned char *key16, int T) {
  OpResult r;
  int ifd = input_fd_for(F), ofd = vfc::memfd_with({});
  FILE *fi = vfc::fopen_fd(ifd, "rb"), *fout = vfc::fopen_fd(ofd, "wb+");
  unsigned char key[16];
  memcpy(key, key16, 16);
  {
    Settings st((char)-1, (char)-1, true);
    runcrypt rc(fi, fout, key, st, (u8_t)T);
    canon_begin();
    r.ret = rc.execute_decrypt(hinted(F.size()));
    canon_end();
  }
  r.out = vfc::slurp_fd(ofd);
  r.input_intact = (vfc::slurp_fd(ifd) == F);
  r.leftover_live = bufferctrl::live_num;
  r.instance_left = buffergroup::instance != NULL;
  close(ofd);
  return r;
}
inline OpResult wc_verify(const Bytes &F, const unsigned char *key16, int T, bool with_out_stream = true) {
  OpResult r;
  int ifd = input_fd_for(F), ofd = vfc::memfd_with({});
  FILE *fi = vfc::fopen_fd(ifd, "rb"), *fout = with_out_stream ? vfc::fopen_fd(ofd, "wb+") : NULL;
  unsigned char key[16];
  memcpy(key, key16, 16);
  {
    Settings st((char)-1, (char)-1, true);
    runcrypt rc(fi, fout, key, st, (u8_t)T);
    canon_begin();
    r.ret = rc.execute_verify(hinted(F.size()));
    canon_end();
  }
  r.out = vfc::slurp_fd(ofd);
  r.input_intact = (vfc::slurp_fd(ifd) == F);
  r.leftover_live = bufferctrl::live_num;
  r.instance_left = buffergroup::instance != NULL;
  close(ofd);
  return r;
}

// content alphabets
inline Bytes content(int kind, size_t n) {
  Bytes p(n);
  for (size_t i = 0; i < n; i++) {
    switch (kind) {
    case 0: p[i] = (unsigned char)(i * 7 + 1 + (i >> 4) * 3); break;   // position-dependent, no two blocks equal
    case 1: p[i] = 0x00; break;
    case 2: p[i] = 0xff; break;
    case 3: p[i] = (unsigned char)(0x10 - (i % 16 == 15 ? 0 : 0x0f)); break; // bytes that look like padding (0x01 / 0x10)
    default: p[i] = (unsigned char)((i * 2654435761u) >> 13);
    }
  }
  return p;
}
static const unsigned char KEYS[4][16] = {
    {0x00, 0x11, 0x22, 0x33, 0x44, 0x55, 0x66, 0x77, 0x88, 0x99, 0xaa, 0xbb, 0xcc, 0xdd, 0xee, 0xff},
    {0},
    {0xff, 0xff, 0xff, 0xff, 0xff, 0xff, 0xff, 0xff, 0xff, 0xff, 0xff, 0xff, 0xff, 0xff, 0xff, 0xff},
    {0x2b, 0x7e, 0x15, 0x16, 0x28, 0xae, 0xd2, 0xa6, 0xab, 0xf7, 0x15, 0x88, 0x09, 0xcf, 0x4f, 0x3c}};
static const int NSEEDS = 11;
inline std::string seed_of(int kind) {
  switch (kind) {
  case 0: return "seed";
  case 1: return std::string(256, 'y'); // as long as the command line's random buffer (256 bytes, no NUL inside)
  case 2: return "";
  case 3: return "a";
  case 4: return std::string(255, 'x');
  case 5: return std::string(300, 'z') + "tail";
  // seeds chosen for the structure of their SHA-1 chain: a digest is binary, any byte value can occur at any position of a link
  case 7: return "seed176"; // SHA-1(seed) begins with 0x00
  case 8: return "seed212"; // the same (two of them: seed dependence of the later fields is compared between neighbours)
  case 9: return "seed82";  // the second link of the chain begins with 0x00
  case 10: return "seed126"; // the same
  default: return "another seed \x01\x02\xff";
  }
}
} // namespace fo
