// fgrid.cpp - C01 (round trip) and C02 (format equals the executable specification) over an
// exhaustive grid of (T, length, cipher mode, hash mode, key, seed, content).
// usage: fgrid mode=c01|c02 tier=quick|thorough [shard= nshards=] [single=<case>]
#include "cases.hpp"
#include "fileops.hpp"

using namespace cs;
static const size_t S = fo::S;

static std::string lenclass(size_t n, int T) {
  size_t padded = (n / 16 + 1) * 16, chunks = (padded + S - 1) / S;
  std::string rel = chunks < (size_t)T ? "lt" : chunks == (size_t)T ? "eq" : chunks <= (size_t)2 * T ? "gt" : "gt2";
  return "r16=" + std::to_string(n % 16) + ",lastchunkblocks=" + std::to_string((padded % S) / 16) + ",chunks" + rel + "T";
}

static size_t g_total_cases = 0;
static void build(const Args &a, std::vector<Case> &out) {
  size_t shard = (size_t)a.num("shard", 0), nshards = (size_t)a.num("nshards", 1), idx = 0; // only this shard's cases are materialised
  std::string mode = a.str("mode", "c01");
  bool thorough = a.str("tier", "quick") == "thorough";
  int nkeys = thorough ? 3 : 2, nseeds = (mode == "c02") ? (thorough ? fo::NSEEDS : 5) : (thorough ? 3 : 2), ncont = thorough ? 4 : 2;
  if (a.num("prod", 0)) { // production constants (16 MiB chunks): the boundary lengths of one and two real chunks, default T=4 and T=1
    for (int T : {4, 1})
      for (size_t n : {S - 17, S - 16, S - 1, S, S + 1, 2 * S - 16, 2 * S + 3, 4 * S - 16, 4 * S + 3})
        for (int cm : {1, 2}) {
          if (T == 1 && n > 2 * S + 3) continue; // T=1: the single buffer is refilled from the second chunk on; T=4: from the fifth
          if (idx++ % nshards != shard) continue;
          Case c;
          c.set("T", T).set("n", (long)n).set("cm", cm).set("hm", cm % 3).set("k", 0).set("sd", 0).set("ct", cm == 1 ? 1 : 0);
          c.cls = "production:T=" + std::to_string(T) + ",cm=" + std::to_string(cm) + "," + lenclass(n, T);
          out.push_back(c);
        }
    g_total_cases = idx;
    return;
  }
  bool rr = a.str("sched", "canon") == "rr"; // the round-robin schedule with points inside the stream code: only T >= 2 can differ from the canonical one
  std::vector<int> Ts = a.list("T", rr ? (thorough ? std::vector<int>{2, 3, 4, 5, 8, 16} : std::vector<int>{2, 3, 4}) : std::vector<int>{1, 2, 3, 4, 5, 6, 7, 8, 9, 10, 11, 12, 13, 14, 15, 16});
  if (rr) { nkeys = 1; nseeds = 1; ncont = thorough ? 2 : 1; }
  for (int T : Ts) {
    size_t maxn = (size_t)(T + 2) * S + 17;
    bool allh = ((T == 1 || T == 2 || T == 4) || thorough) && !rr; // thorough: every hash mode for every T
    for (size_t n = 0; n <= maxn; n++)
      for (int cm = 0; cm < 5; cm++)
        for (int hm = 0; hm < (allh ? 3 : 1); hm++) {
          // alphabets: the full product for the base member, single deviations for the others
          for (int k = 0; k < nkeys; k++)
            for (int sd = 0; sd < nseeds; sd++)
              for (int ct = 0; ct < ncont; ct++)
              for (int sh = 0; sh < (rr ? 1 : 3); sh++) { // size hint given to execute_*: exact / 0 ("unknown") / too large
                if ((k != 0) + (sd != 0) + (ct != 0) + (sh != 0) > 1) continue;
                if ((k || sd || ct || sh) && !allh && (n % 5)) continue; // deviations on every 5th length for the other T
                if (idx++ % nshards != shard) continue;
                Case c;
                c.set("T", T).set("n", (long)n).set("cm", cm).set("hm", hm).set("k", k).set("sd", (!thorough && mode == "c02" && sd >= 3) ? (sd == 3 ? 7 : 9) : sd).set("ct", ct).set("sh", sh);
                c.cls = std::string(rr ? "rr," : "") + "T=" + std::to_string(T) + ",cm=" + std::to_string(cm) + ",hm=" + std::to_string(hm) + "," + lenclass(n, T);
                out.push_back(c);
              }
        }
  }
  g_total_cases = idx;
}

static std::string run_c01_(const Case &c);
static std::string run_c02_(const Case &c);
static std::string run_c01(const Case &c) { fo::g_size_hint = (int)c.num("sh", 0); std::string r = run_c01_(c); fo::g_size_hint = 0; return r.empty() || !c.num("sh", 0) ? r : r + " (size argument " + (c.num("sh") == 1 ? "0" : "too large") + ")"; }
static std::string run_c02(const Case &c) { fo::g_size_hint = (int)c.num("sh", 0); std::string r = run_c02_(c); fo::g_size_hint = 0; return r.empty() || !c.num("sh", 0) ? r : r + " (size argument " + (c.num("sh") == 1 ? "0" : "too large") + ")"; }
static std::string run_c01_(const Case &c) {
  int T = (int)c.num("T"), cm = (int)c.num("cm"), hm = (int)c.num("hm");
  size_t n = (size_t)c.num("n");
  static const int CT[4] = {0, 3, 1, 2}; // position-dependent, padding-like (every block ends in 0x10/0x01), zeros, FF
  Bytes P = fo::content(CT[c.num("ct")], n);
  const unsigned char *key = fo::KEYS[c.num("k")];
  fo::OpResult e = fo::wc_encrypt(P, key, cm, hm, fo::seed_of((int)c.num("sd")), T);
  if (!e.ret) return "encrypt-reports-failure|execute_encrypt returned false";
  fo::OpResult d = fo::wc_decrypt(e.out, key, T);
  if (!d.ret) return "decrypt-reports-failure|execute_decrypt returned false on the file just written (" + std::to_string(e.out.size()) + " bytes)";
  if (d.out.size() != P.size()) return "length-differs|decrypted " + std::to_string(d.out.size()) + " bytes, plaintext had " + std::to_string(P.size());
  if (d.out != P) return "content-differs|decrypted bytes differ from the plaintext";
  return "";
}
static std::string run_c02_(const Case &c) {
  int T = (int)c.num("T"), cm = (int)c.num("cm"), hm = (int)c.num("hm");
  size_t n = (size_t)c.num("n");
  static const int CT[4] = {0, 3, 1, 2}; // position-dependent, padding-like (every block ends in 0x10/0x01), zeros, FF
  Bytes P = fo::content(CT[c.num("ct")], n);
  const unsigned char *key = fo::KEYS[c.num("k")];
  std::string seed = fo::seed_of((int)c.num("sd"));
  fo::OpResult e = fo::wc_encrypt(P, key, cm, hm, seed, T);
  if (!e.ret) return "encrypt-reports-failure|execute_encrypt returned false";
  if (!e.input_intact) return "input-modified|the plaintext file changed during encryption";
  size_t explen = 48 + 20 * (size_t)T + 16 * (n / 16 + 1);
  Bytes R = ref::encrypt(P, key, cm, hm, fo::cstr_seed(seed), T, S);
  if (e.out.size() != explen) return "length|file has " + std::to_string(e.out.size()) + " bytes, format says " + std::to_string(explen);
  if (e.out != R) {
    size_t i = 0;
    while (i < R.size() && e.out[i] == R[i]) i++;
    size_t hdr = 48 + 20 * (size_t)T;
    std::string where = i < 8 ? "magic" : i < 10 ? "mode-bytes" : i < 48 ? "tag-area" : i < hdr ? "iv-fields" : "body";
    return "differs-from-spec:" + where + "|first difference at offset " + std::to_string(i) + " (" + where + ")";
  }
  fo::OpResult e2 = fo::wc_encrypt(P, key, cm, hm, seed, T);
  if (e2.out != e.out) return "nondeterministic|two encryptions with identical parameters differ";
  size_t hdr = 48 + 20 * (size_t)T;
  for (size_t off = 0; off + 16 <= n; off += 16)
    if (memcmp(&e.out[hdr + off], &P[off], 16) == 0) return "plaintext-in-output|body block at offset " + std::to_string(off) + " equals the plaintext block";
  return "";
}

int main(int argc, char **argv) {
  { std::string w; if (ref::selftest(w)) { fprintf(stderr, "reference self-test failed: %s\n", w.c_str()); return 9; } }
  Args a(argc, argv);
  std::string mode = a.str("mode", "c01");
  if (a.str("sched", "canon") == "rr") { fo::g_sched_policy = 1; fo::g_streampoints = 1; }
  Spec sp;
  sp.harness = "fgrid";
  sp.build = [&sp](const Args &a, std::vector<Case> &out) { build(a, out); sp.presharded = true; sp.presharded_total = g_total_cases; };
  sp.run = mode == "c02" ? run_c02 : run_c01;
  sp.on_death = [](const Case &, const CaseResult &cr) { return "abnormal-end:" + std::string(cr.exitcode == 42 ? "deadlock" : cr.exitcode == 77 ? "asan" : cr.timeout ? "hang" : "crash") + "|operation did not return normally: " + describe_death(cr); };
  sp.alarm_s = a.num("prod", 0) ? 600 : 30;
  return main_loop(argc, argv, sp);
}
