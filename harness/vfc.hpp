// vfc.hpp - helpers shared by all harness executables (JSON-lines output, memfd files,
// fork-isolated batch execution).
#pragma once
#include <fcntl.h>
#include <signal.h>
#include <sys/mman.h>
#include <sys/wait.h>
#include <unistd.h>
#include <cstdint>
#include <cstdio>
#include <cstdlib>
#include <cstring>
#include <functional>
#include <map>
#include <set>
#include <sstream>
#include <string>
#include <vector>

typedef std::vector<unsigned char> Bytes;

namespace vfc {

inline std::string jesc(const std::string &s) {
  std::string o;
  for (unsigned char c : s) {
    if (c == '"' || c == '\\') { o += '\\'; o += (char)c; }
    else if (c < 0x20 || c >= 0x7f) { char b[8]; snprintf(b, sizeof b, "\\u%04x", c); o += b; }
    else o += (char)c;
  }
  return o;
}
inline std::string hex(const unsigned char *p, size_t n) {
  static const char *d = "0123456789abcdef";
  std::string s;
  for (size_t i = 0; i < n; i++) { s += d[p[i] >> 4]; s += d[p[i] & 15]; }
  return s;
}
inline std::string hex(const Bytes &b) { return hex(b.data(), b.size()); }
inline Bytes unhex(const std::string &s) {
  Bytes b;
  for (size_t i = 0; i + 1 < s.size(); i += 2) b.push_back((unsigned char)strtol(s.substr(i, 2).c_str(), 0, 16));
  return b;
}
// JSON records go to `jout`: by default stdout; init_json_channel() moves them to a private dup of
// stdout and points fd 1 at /dev/null, because the code under test prints progress to stdout.
static FILE *jout = stdout;
inline void init_json_channel() {
  static bool done = false;
  if (done) return;
  done = true;
  fflush(stdout);
  int d = dup(1);
  jout = fdopen(d, "w");
  int n = open("/dev/null", O_WRONLY);
  dup2(n, 1);
  close(n);
}
// JSON object builder: J().s("k","v").n("k",1).raw("k","[1,2]").emit()
struct J {
  std::string b = "{";
  bool first = true;
  J &key(const char *k) { if (!first) b += ","; first = false; b += "\""; b += k; b += "\":"; return *this; }
  J &s(const char *k, const std::string &v) { key(k); b += "\"" + jesc(v) + "\""; return *this; }
  J &n(const char *k, long long v) { key(k); b += std::to_string(v); return *this; }
  J &d(const char *k, double v) { key(k); char t[32]; snprintf(t, sizeof t, "%.6g", v); b += t; return *this; }
  J &bo(const char *k, bool v) { key(k); b += v ? "true" : "false"; return *this; }
  J &raw(const char *k, const std::string &v) { key(k); b += v; return *this; }
  std::string str() const { return b + "}"; }
  void emit(FILE *f = nullptr) const { if (!f) f = jout; std::string s = str(); s += "\n"; fwrite(s.data(), 1, s.size(), f); fflush(f); }
};
inline std::string jarr(const std::vector<int> &v) { std::string s = "["; for (size_t i = 0; i < v.size(); i++) { if (i) s += ","; s += std::to_string(v[i]); } return s + "]"; }
inline std::string jarrs(const std::vector<std::string> &v) { std::string s = "["; for (size_t i = 0; i < v.size(); i++) { if (i) s += ","; s += "\"" + jesc(v[i]) + "\""; } return s + "]"; }
inline std::string jmap(const std::map<std::string, long> &m) { std::string s = "{"; bool f = true; for (auto &kv : m) { if (!f) s += ","; f = false; s += "\"" + jesc(kv.first) + "\":" + std::to_string(kv.second); } return s + "}"; }

// key=value command line
struct Args {
  std::map<std::string, std::string> m;
  Args(int argc, char **argv) {
    for (int i = 1; i < argc; i++) {
      std::string a = argv[i];
      size_t p = a.find('=');
      if (p == std::string::npos) m[a] = "1"; else m[a.substr(0, p)] = a.substr(p + 1);
    }
  }
  bool has(const std::string &k) const { return m.count(k) > 0; }
  std::string str(const std::string &k, const std::string &d = "") const { auto i = m.find(k); return i == m.end() ? d : i->second; }
  long num(const std::string &k, long d = 0) const { auto i = m.find(k); return i == m.end() ? d : atol(i->second.c_str()); }
  std::vector<int> list(const std::string &k, const std::vector<int> &d = {}) const {
    auto i = m.find(k);
    if (i == m.end()) return d;
    std::vector<int> v;
    std::stringstream ss(i->second);
    std::string t;
    while (std::getline(ss, t, ',')) {
      size_t dd = t.find("..");
      if (dd != std::string::npos) { int a = atoi(t.substr(0, dd).c_str()), b = atoi(t.substr(dd + 2).c_str()); for (int x = a; x <= b; x++) v.push_back(x); }
      else if (!t.empty()) v.push_back(atoi(t.c_str()));
    }
    return v;
  }
};

// ---- memfd-backed FILE streams ------------------------------------------------------------------
inline int memfd_with(const Bytes &d) {
  int fd = memfd_create("vf", 0);
  if (fd < 0) { perror("memfd_create"); _exit(95); }
  size_t off = 0;
  while (off < d.size()) { ssize_t k = write(fd, d.data() + off, d.size() - off); if (k <= 0) { perror("write"); _exit(95); } off += k; }
  lseek(fd, 0, SEEK_SET);
  return fd;
}
// returns FILE* owning a dup of fd (so the harness keeps fd to look at the content after fclose)
inline FILE *fopen_fd(int fd, const char *mode) { int d = dup(fd); lseek(d, 0, SEEK_SET); return fdopen(d, mode); }
inline Bytes slurp_fd(int fd) {
  Bytes v;
  off_t n = lseek(fd, 0, SEEK_END);
  if (n <= 0) return v;
  v.resize(n);
  size_t off = 0;
  while (off < (size_t)n) { ssize_t k = pread(fd, v.data() + off, n - off, off); if (k <= 0) break; off += k; }
  return v;
}
struct StdoutSilencer { // the code prints progress even with no_echo; keep our JSON channel clean
  int saved = -1;
  void on() { fflush(stdout); saved = dup(1); int n = open("/dev/null", O_WRONLY); dup2(n, 1); close(n); }
  void off() { fflush(stdout); if (saved >= 0) { dup2(saved, 1); close(saved); saved = -1; } }
};

// ---- fork-isolated batch -------------------------------------------------------------------------
// Runs fn(i) for i in [0,n) inside forked children; a child handles consecutive cases and reports
// each result string through a pipe. If the child dies in case k the parent records how and starts a
// new child at k+1. `fn` returns an observation string (must not contain '\n').
struct CaseResult { std::string obs; int died = 0; int sig = 0; int exitcode = 0; bool timeout = false; };
inline std::string describe_death(const CaseResult &r) {
  if (!r.died) return "";
  if (r.timeout) return "timeout";
  if (r.sig) return "signal " + std::to_string(r.sig);
  if (r.exitcode == 42) return "deadlock (no enabled thread)";
  if (r.exitcode == 46) return "step horizon exceeded (livelock)";
  if (r.exitcode == 77) return "AddressSanitizer report";
  return "exit " + std::to_string(r.exitcode);
}
// one case alone in a fresh child (confirmation run): true iff it ended by itself (result or genuine death in `cr`)
inline bool run_alone(long i, const std::function<std::string(long)> &fn, int alarm_s, CaseResult &cr) {
  int p[2];
  if (pipe(p) != 0) { perror("pipe"); _exit(95); }
  fflush(stdout);
  pid_t pid = fork();
  if (pid == 0) {
    close(p[0]);
    alarm(alarm_s);
    std::string o = fn(i);
    o += "\n";
    size_t off = 0;
    while (off < o.size()) { ssize_t k = write(p[1], o.data() + off, o.size() - off); if (k <= 0) break; off += k; }
    _exit(0);
  }
  close(p[1]);
  std::string got;
  char buf[4096];
  ssize_t k;
  while ((k = read(p[0], buf, sizeof buf)) > 0) got.append(buf, (size_t)k);
  close(p[0]);
  int st = 0;
  waitpid(pid, &st, 0);
  cr = CaseResult();
  if (WIFEXITED(st) && WEXITSTATUS(st) == 0 && !got.empty() && got.back() == '\n') { got.pop_back(); cr.obs = got; return true; }
  cr.died = 1;
  if (WIFSIGNALED(st)) { cr.sig = WTERMSIG(st); cr.timeout = (cr.sig == SIGALRM); }
  else cr.exitcode = WEXITSTATUS(st);
  return !(cr.sig == SIGALRM || cr.sig == SIGKILL || cr.sig == SIGTERM);
}
inline void run_batch(long n, const std::function<std::string(long)> &fn, const std::function<void(long, const CaseResult &)> &sink,
                      int per_case_alarm_s = 20, long max_timeouts = -1) {
  long next = 0, timeouts = 0;
  while (next < n) {
    if (max_timeouts >= 0 && timeouts > max_timeouts) return; // every hang costs a whole alarm period: stop here, the caller reports the cap
    int p[2];
    if (pipe(p) != 0) { perror("pipe"); _exit(95); }
    fflush(stdout);
    pid_t pid = fork();
    if (pid == 0) {
      close(p[0]);
      FILE *w = fdopen(p[1], "w");
      for (long i = next; i < n; i++) {
        alarm(per_case_alarm_s);
        fprintf(w, "B %ld\n", i);
        fflush(w);
        std::string o = fn(i);
        fprintf(w, "R %ld %s\n", i, o.c_str());
        fflush(w);
      }
      _exit(0);
    }
    close(p[1]);
    FILE *r = fdopen(p[0], "r");
    char *line = NULL;
    size_t cap = 0;
    long begun = -1, done = next - 1;
    ssize_t len;
    while ((len = getline(&line, &cap, r)) > 0) {
      if (line[len - 1] == '\n') line[len - 1] = 0;
      if (line[0] == 'B') begun = atol(line + 2);
      else if (line[0] == 'R') {
        char *sp = strchr(line + 2, ' ');
        long i = atol(line + 2);
        CaseResult cr;
        cr.obs = sp ? std::string(sp + 1) : "";
        sink(i, cr);
        done = i;
      }
    }
    free(line);
    fclose(r);
    int st = 0;
    waitpid(pid, &st, 0);
    if (done + 1 >= n) break;
    // child died in case `begun` (== done+1)
    long k = done + 1;
    (void)begun;
    CaseResult cr;
    cr.died = 1;
    if (WIFSIGNALED(st)) { cr.sig = WTERMSIG(st); cr.timeout = (cr.sig == SIGALRM); }
    else cr.exitcode = WEXITSTATUS(st);
    if (cr.sig == SIGALRM || cr.sig == SIGKILL || cr.sig == SIGTERM) {
      // the wall-clock alarm, or a kill from outside (OOM killer, a supervisor): nothing the code under test did is proven yet.
      // The case is deterministic, so it is run again alone with a longer limit (3x, then 8x); only a hang that repeats is reported.
      CaseResult again;
      bool settled = false;
      for (int attempt = 0; attempt < 2 && !settled; attempt++) settled = run_alone(k, fn, per_case_alarm_s * (attempt ? 8 : 3), again);
      if (settled) cr = again;
      else { cr = again; timeouts++; }
    }
    sink(k, cr);
    next = k + 1;
  }
}

} // namespace vfc
