// pipe_explore.cpp - C03 / C04 / C14: exhaustive exploration of the interleavings of the real
// buffer pipeline (multi_buffergroup.cpp + multicry.cpp) under vsched, with three monitors:
//   M-term (everything returned and joined), M-out (output == sequential reference; per-stream
//   block log == chunks j, j+T, ... each block once, ascending) and M-own (happens-before races and
//   literal overlaps on chunk buffers).
// usage: pipe_explore T=<n> len=<bytes> enc=<0|1> bound=<k> [sleep=1] [spurious=1] [shard=i nshards=n]
//        [maxexec=N] [deadline=S] [coarse=1] [scenario=pipe|e2e] [cmode= hmode=]  [replay=c0,c1,..]
#include "cry.h"
#include "multicry.h"
#include "verif_hooks.h"
#include "explore.hpp"
#include "ref.hpp"
#include "vfc.hpp"
#include <openssl/sha.h>

using namespace vfc;

static const u32_t S = iobuffer::sum;
static const u32_t NB = iobuffer::BUF_SZ;

// ---- configuration ----------------------------------------------------------------------------------
static int Tn = 2, ENC = 1, COARSE = 0, CMODE = 1, HMODE = 0, RAWDEC = 0, HINT0 = 0; // HINT0: the size argument (progress display; 0 = unknown, as for a FIFO) is given as 0
static std::string SCEN = "pipe";
static Bytes IN, EXP;
static const u8_t KEY[16] = {0x00, 0x11, 0x22, 0x33, 0x44, 0x55, 0x66, 0x77, 0x88, 0x99, 0xaa, 0xbb, 0xcc, 0xdd, 0xee, 0xff};
static const u8_t IV0[16] = {1, 2, 3, 4, 5, 6, 7, 8, 9, 10, 11, 12, 13, 14, 15, 16};

// ---- chained toy streams: a skipped, duplicated, reordered or foreign block changes every later byte ---
struct LogEnt { int tid, buf; long gblock; };
static std::vector<LogEnt> g_log[multicry_master::THREAD_MAX];
static int g_chunk_of_buf[multicry_master::THREAD_MAX];
static int g_nchunks = 0;
static long g_hook_events = 0; // WENCRY_VERIF_POINT events seen in this execution
static int g_io_busy[multicry_master::THREAD_MAX];
static std::vector<std::string> g_overlap;
#define g_bg (buffergroup::instance)

// shared objects for the independence relation (sleep-set mode): per buffer i
enum { OBJ_M = 0, OBJ_CVR = 1, OBJ_CVU = 2, OBJ_CUR = 3, OBJ_BYT = 4 };
static inline long OBJ(int i, int k) { return 10L * i + k; }
static inline long OBJ_STREAM(int j) { return 1000 + j; }
static int buf_index_of(const void *p) {
  if (!g_bg || !g_bg->buflst) return -1;
  const char *c = (const char *)p, *base = (const char *)&g_bg->buflst[0]; // works for a raw array pointer, unique_ptr<T[]> and std::vector alike
  if (c < base || c >= base + sizeof(iobuffer) * g_bg->size) return -1;
  return (int)((c - base) / sizeof(iobuffer));
}
static void note_overlap(const char *what, int buf) {
  if (g_overlap.size() < 8) g_overlap.push_back(std::string(what) + "@buf" + std::to_string(buf) + ":t" + std::to_string(vs_self()));
}
static void stream_event(int stream, u8_t *block) {
  int bi = buf_index_of(block);
  long slot = -1;
  if (bi >= 0) slot = (long)((block - (u8_t *)g_bg->buflst[bi].b) / 16);
  if (bi >= 0 && vs_active()) {
    if (COARSE == 0) { vs_fp_t fp[2] = {{OBJ(bi, OBJ_BYT), 1}, {OBJ_STREAM(stream), 1}}; vs_point_fp(100, bi, fp, 2); }
    vs_access(2 * bi + 1, 1, 100 + stream);
    vs_access(32 + stream, 1, 200 + stream); // the stream object itself: two threads may use it only if ordered by happens-before
    if (g_io_busy[bi]) note_overlap("worker-block-during-io", bi);
  }
  long g = (bi >= 0 && g_chunk_of_buf[bi] >= 0) ? (long)g_chunk_of_buf[bi] * NB + slot : -1;
  g_log[stream].push_back({vs_self(), bi, g});
}
struct ChainEnc : Aesmode {
  u8_t st[16]; int id;
  ChainEnc(const u8_t *iv, int id) : Aesmode(iv), id(id) { memcpy(st, iv, 16); }
  void runcry(u8_t *b) override { stream_event(id, b); for (int i = 0; i < 16; i++) { b[i] ^= st[i] ^ 0x5a; st[i] = (u8_t)(b[i] * 3 + 1); } }
};
struct ChainDec : Aesmode {
  u8_t st[16]; int id;
  ChainDec(const u8_t *iv, int id) : Aesmode(iv), id(id) { memcpy(st, iv, 16); }
  void runcry(u8_t *b) override { stream_event(id, b); for (int i = 0; i < 16; i++) { u8_t c = b[i]; b[i] ^= st[i] ^ 0x5a; st[i] = (u8_t)(c * 3 + 1); } }
};
static void chain_ref(Bytes &d, int T, bool enc) { // sequential reference of the striping with the toy streams
  std::vector<Bytes> st(T, Bytes(IV0, IV0 + 16));
  size_t ch = 0;
  for (size_t off = 0; off < d.size(); off += S, ch++) {
    size_t e = std::min(d.size(), off + (size_t)S);
    Bytes &s = st[ch % T];
    for (size_t p = off; p + 16 <= e; p += 16)
      for (int i = 0; i < 16; i++) {
        u8_t c = d[p + i];
        d[p + i] ^= s[i] ^ 0x5a;
        s[i] = (u8_t)((enc ? d[p + i] : c) * 3 + 1);
      }
  }
}
static Bytes pad(const Bytes &p) { Bytes d = p; int n = 16 - (int)(d.size() % 16); d.insert(d.end(), n, (u8_t)n); return d; }

// private members the harness reads only to enrich the state hash: if a refactoring removes one, the hash does without it (the
// harness must still compile - "cannot decide" helps nobody)
template <class B> static auto opt_isfinal(const B &b, int) -> decltype((int)b.isfinal) { return (int)b.isfinal; }
template <class B> static int opt_isfinal(const B &, long) { return 0; }
static int g_ofd = -1;
static int g_futex_seen = 0; // the pipeline used futex-word waits / once routines (std::future & co.) in this execution
static int STATEFUL = 0;
static uint64_t g_out_hash = 0;
static void refresh_out_hash() { uint64_t h = 99; if (g_ofd >= 0) { Bytes o = slurp_fd(g_ofd); h = h * 1099511628211ULL + o.size(); for (auto b : o) h = (h ^ b) * 1099511628211ULL; } g_out_hash = h; }
// ---- hook sink: events, happens-before accesses, scheduling points ---------------------------------------
extern "C" void wencry_verif_point(int kind, long index, long aux) {
  if (!vs_active()) return;
  g_hook_events++;
  int bi = (kind == WV_BUF_LOAD_STEP || kind == WV_BUF_EXPORT_STEP) ? buf_index_of((void *)index) : (int)index;
  if (bi < 0 || bi >= multicry_master::THREAD_MAX) { vs_point(kind, -1); return; }
  // scheduling point first: the access happens after the point
  bool is_sched = COARSE <= 1 || kind == WV_W_GET; // in coarse mode only lock operations and block hand-outs are points
  if (is_sched) {
    vs_fp_t fp[2];
    int n = 0;
    switch (kind) {
    case WV_W_GET: fp[n++] = {OBJ(bi, OBJ_CUR), 1}; break;
    case WV_W_STATE: case WV_IO_STATE: fp[n++] = {OBJ(bi, OBJ_M), 0}; break;
    case WV_BUF_LOAD_STEP: fp[n++] = {aux == 0 ? OBJ(bi, OBJ_BYT) : OBJ(bi, OBJ_CUR), 1}; break;
    case WV_BUF_EXPORT_STEP: fp[n++] = {OBJ(bi, OBJ_CUR), 0}; fp[n++] = {OBJ(bi, OBJ_BYT), 0}; break;
    default: fp[n++] = {OBJ(bi, OBJ_CUR), 1}; fp[n++] = {OBJ(bi, OBJ_BYT), 1}; break; // export/load begin/end bracket accesses to both
    }
    vs_point_fp(kind * 16 + (int)(aux & 15), bi, fp, n);
  }
  switch (kind) {
  case WV_W_GET: {
    iobuffer &b = g_bg->buflst[bi];
    bool willwrite = b.now < b.total;
    vs_access(2 * bi, willwrite ? 1 : 0, 10 + (int)aux);
    if (g_io_busy[bi]) note_overlap("worker-cursor-during-io", bi);
    break;
  }
  case WV_W_STATE: case WV_IO_STATE: break;
  case WV_IO_EXPORT_BEGIN: g_io_busy[bi] = 1; break;
  case WV_BUF_EXPORT_STEP: vs_access(2 * bi, 0, 20); vs_access(2 * bi + 1, 0, 21); break;
  case WV_IO_EXPORT_END: vs_access(2 * bi, 0, 22); g_io_busy[bi] = 0; if (STATEFUL) refresh_out_hash(); break;
  case WV_IO_LOAD_BEGIN: g_io_busy[bi] = 1; vs_access(2 * bi, 1, 30); vs_access(2 * bi + 1, 1, 31); break;
  case WV_BUF_LOAD_STEP:
    if (aux == 0) vs_access(2 * bi + 1, 1, 32); else vs_access(2 * bi, 1, 33 + (int)aux);
    break;
  case WV_IO_LOAD_END:
    vs_access(2 * bi, 1, 36); vs_access(2 * bi + 1, 1, 37);
    g_io_busy[bi] = 0;
    if (aux != NODATA) g_chunk_of_buf[bi] = g_nchunks++;
    break;
  }
}
static long group_of(int op, void *obj) {
  (void)op;
  if (!g_bg || !g_bg->ctrl) return -1;
  const char *c = (const char *)obj, *base = (const char *)&g_bg->ctrl[0];
  if (c >= base && c < base + sizeof(bufferctrl) * g_bg->size) return (long)((c - base) / sizeof(bufferctrl));
  return -1;
}
static int fp_of_pthread_op(int op, void *obj, vs_fp_t out[VS_MAXFP]) {
  (void)op;
  if (!g_bg || !g_bg->ctrl) return -1;
  const char *c = (const char *)obj, *base = (const char *)&g_bg->ctrl[0];
  if (c < base || c >= base + sizeof(bufferctrl) * g_bg->size) return -1;
  int i = (int)((c - base) / sizeof(bufferctrl));
  bufferctrl &b = g_bg->ctrl[i];
  if (obj == (void *)&b.lock) { out[0] = {OBJ(i, OBJ_M), 1}; return 1; }
  if (obj == (void *)&b.cv_ready) { out[0] = {OBJ(i, OBJ_CVR), 1}; out[1] = {OBJ(i, OBJ_M), 1}; return 2; }
  if (obj == (void *)&b.cv_update) { out[0] = {OBJ(i, OBJ_CVU), 1}; out[1] = {OBJ(i, OBJ_M), 1}; return 2; }
  out[0] = {OBJ(i, OBJ_M), 1};
  return 1;
}
// function-entry/exit callbacks from the cipher-stream translation units when they are built with
// -finstrument-functions (build variant "instr"): scheduling points INSIDE runcry()/runaes_128bit()/ctrInc(),
// so that two workers can be interleaved within the stream code (which has no source hooks)
static int STREAMPOINTS = 0;
extern "C" {
void __cyg_profile_func_enter(void *, void *) __attribute__((no_instrument_function));
void __cyg_profile_func_exit(void *, void *) __attribute__((no_instrument_function));
void __cyg_profile_func_enter(void *, void *) { if (STREAMPOINTS && vs_active() && vs_self() > 0) { vs_fp_t fp = {2000, 1}; vs_point_fp(300, -1, &fp, 1); } }
void __cyg_profile_func_exit(void *, void *) { if (STREAMPOINTS && vs_active() && vs_self() > 0) { vs_fp_t fp = {2000, 1}; vs_point_fp(301, -1, &fp, 1); } }
}
static std::vector<Aesmode *> *g_streams = nullptr;
static FILE *g_fin = nullptr;
static uint64_t obs_hash() {
  uint64_t h = 1469598103934665603ULL;
  auto mix = [&](uint64_t v) { h ^= v; h *= 1099511628211ULL; };
  if (!g_bg || !g_bg->ctrl) return h;
  if (STATEFUL) { // everything that can influence the future or a monitor's verdict (state-matching search prunes on this hash)
    for (u32_t i = 0; i < g_bg->size; i++) { // only the loaded part of a chunk: the rest of a fresh buffer is uninitialised heap memory
      const iobuffer &bf = g_bg->buflst[i];
      const u8_t *p = (const u8_t *)bf.b;
      u32_t n = std::min<u32_t>(S, bf.total << 4); // whole blocks only: after padding, `tail` still counts bytes of the (now complete) last block
      for (u32_t k = 0; k < n; k++) mix(p[k]);
    }
    if (g_streams) for (auto m : *g_streams) { const u8_t *p = SCEN == "pipe" ? (ENC ? ((ChainEnc *)m)->st : ((ChainDec *)m)->st) : nullptr; if (p) for (int k = 0; k < 16; k++) mix(p[k]); }
    mix(g_out_hash); // output written so far (stream is unbuffered in this mode; refreshed after every export)
    if (g_fin) mix((uint64_t)ftell(g_fin));
    mix(g_nchunks);
    for (int i = 0; i < multicry_master::THREAD_MAX; i++) { mix(g_chunk_of_buf[i] + 1); mix(g_io_busy[i]); mix(g_log[i].size()); for (auto &l : g_log[i]) { mix(l.tid); mix(l.buf + 1); mix(l.gblock + 1); } }
    mix(g_overlap.size());
    mix(vs_nraces);
    if (getenv("VS_OBSDBG")) {
      uint64_t hb = 0, ho = 0; for (u32_t i = 0; i < g_bg->size; i++) { const iobuffer &bf = g_bg->buflst[i]; hb = hb * 31 + bf.total * 7 + bf.tail * 3 + bf.now + opt_isfinal(bf, 0) * 1000; const u8_t *p = (const u8_t *)bf.b; u32_t n = std::min<u32_t>(S, (bf.total << 4) + bf.tail); for (u32_t k = 0; k < n; k++) hb = hb * 131 + p[k]; }
      Bytes o = slurp_fd(g_ofd); for (auto b : o) ho = ho * 131 + b;
      fprintf(stderr, "OBS t%d bufs=%lx out=%zu/%lx fin=%ld nch=%d races=%d ovl=%zu logs=", vs_self(), hb, o.size(), ho, g_fin ? ftell(g_fin) : -1, g_nchunks, vs_nraces, g_overlap.size());
      for (int i = 0; i < Tn; i++) fprintf(stderr, "%zu,", g_log[i].size());
      fprintf(stderr, " st=");
      for (u32_t i = 0; i < g_bg->size; i++) fprintf(stderr, "%d", (int)g_bg->ctrl[i].state);
      fprintf(stderr, " turn=%u over=%d live=%d\n", g_bg->turn, g_bg->over, (int)bufferctrl::live_num);
    }
  }
  for (u32_t i = 0; i < g_bg->size; i++) {
    mix(g_bg->ctrl[i].state);
    mix(g_bg->buflst[i].now); mix(g_bg->buflst[i].total); mix(g_bg->buflst[i].tail); mix(opt_isfinal(g_bg->buflst[i], 0));
  }
  mix(g_bg->turn); mix(g_bg->over); mix(bufferctrl::live_num);
  return h;
}

// ---- expected per-stream logs -----------------------------------------------------------------------------
static std::vector<long> expected_blocks(int stream, size_t body_len) {
  std::vector<long> v;
  size_t nblocks = body_len / 16, nchunks = (nblocks + NB - 1) / NB;
  for (size_t c = stream; c < nchunks; c += Tn)
    for (size_t s = 0; s < NB && c * NB + s < nblocks; s++) v.push_back((long)(c * NB + s));
  return v;
}

// ---- scenarios -----------------------------------------------------------------------------------------------
static std::string digest8(const Bytes &b) { unsigned char d[32]; SHA256(b.data(), b.size(), d); return hex(d, 8); }

// at a deadlock: a chunk that was loaded and published while the worker that owns its position has already returned can never be
// given to its owner any more - that is C14's "every chunk is given to exactly one worker", on top of C04's deadlock
static std::string *g_obsp = nullptr;
static void pre_fatal(int code) {
  if (code != VS_DEADLOCK || !g_obsp || !g_bg || !g_bg->buflst) return;
  std::string ab;
  for (u32_t bi = 0; bi < g_bg->size && bi < (u32_t)multicry_master::THREAD_MAX; bi++) {
    int c = g_chunk_of_buf[bi];
    if (c < 0 || !vs_thread_done((int)bi + 1)) continue; // worker i is the i-th thread run_multicry creates
    long seen = 0;
    for (auto &l : g_log[bi]) if (l.gblock >= (long)c * NB && l.gblock < (long)(c + 1) * NB) seen++;
    if (seen < (long)g_bg->buflst[bi].total) ab += (ab.empty() ? "" : ",") + std::string("chunk") + std::to_string(c) + "@buf" + std::to_string(bi) + ":" + std::to_string(seen) + "of" + std::to_string(g_bg->buflst[bi].total);
  }
  if (!ab.empty()) *g_obsp = "running;abandoned=" + ab;
}
// set_buffergroup(T, in, out, direction) - or, after a refactoring that hands the pipeline a size estimate, with one more integer argument
template <class G> static auto call_set_buffergroup(G *g, FILE *fi, FILE *fo, int) -> decltype(g->set_buffergroup(Tn, fi, fo, (bool)ENC), void()) { g->set_buffergroup(Tn, fi, fo, (bool)ENC); }
template <class G> static auto call_set_buffergroup(G *g, FILE *fi, FILE *fo, long) -> decltype(g->set_buffergroup(Tn, fi, fo, (bool)ENC, (u64_t)0), void()) { g->set_buffergroup(Tn, fi, fo, (bool)ENC, (u64_t)(HINT0 ? 0 : IN.size())); }
static void scenario_pipe(std::string &obs) {
  g_obsp = &obs;
  vx::g_pre_fatal = pre_fatal;
  for (auto &l : g_log) l.clear();
  for (auto &c : g_chunk_of_buf) c = -1;
  memset(g_io_busy, 0, sizeof g_io_busy);
  g_nchunks = 0;
  g_hook_events = 0;
  g_overlap.clear();
  int ifd = memfd_with(IN), ofd = memfd_with({});
  g_ofd = ofd;
  FILE *fi = fopen_fd(ifd, "rb"), *fo = fopen_fd(ofd, "wb+");
  std::vector<Aesmode *> m;
  for (int i = 0; i < Tn; i++) m.push_back(ENC ? (Aesmode *)new ChainEnc(IV0, i) : (Aesmode *)new ChainDec(IV0, i));
  g_streams = &m;
  g_fin = fi;
  g_out_hash = 0;
  if (STATEFUL) setvbuf(fo, NULL, _IONBF, 0);
  call_set_buffergroup(buffergroup::get_instance(), fi, fo, 0);
  vs_group_of = group_of;
  vs_fp_of = fp_of_pthread_op;
  vs_obs_hash = obs_hash;
  multicry_master mm(Tn);
  obs = "running";
  vs_begin();
  mm.run_multicry(m.data(), [](std::string, size_t) {});
  vs_end();
  int nthreads = vs_nthreads_seen;
  if (vs_futex_ops > 0) g_futex_seen = 1;
  g_streams = nullptr;
  g_fin = nullptr;
  buffergroup::del_instance();
  fflush(fo);
  Bytes out = slurp_fd(ofd);
  // M-out
  std::string mout = (RAWDEC || out == EXP) ? "ok" : "BAD(len=" + std::to_string(out.size()) + ",exp=" + std::to_string(EXP.size()) + ")";
  // per-stream log
  std::string mlog = "ok";
  size_t body = ENC ? pad(IN).size() : IN.size();
  bool attributable = !RAWDEC; // blocks handed to the streams lie inside the chunk buffers (else: a refactoring copies them; only M-out applies)
  for (int j = 0; j < Tn; j++) for (auto &l : g_log[j]) if (l.buf < 0) attributable = false;
  for (int j = 0; j < Tn && mlog == "ok" && attributable; j++) {
    std::vector<long> e = expected_blocks(j, body);
    if (g_log[j].size() != e.size()) { mlog = "BAD(stream" + std::to_string(j) + ":count " + std::to_string(g_log[j].size()) + "!=" + std::to_string(e.size()) + ")"; break; }
    for (size_t k = 0; k < e.size(); k++) {
      const LogEnt &l = g_log[j][k];
      if (l.buf != j) { mlog = "BAD(stream" + std::to_string(j) + ":foreign-buffer " + std::to_string(l.buf) + ")"; break; }
      if (l.gblock != e[k]) { mlog = "BAD(stream" + std::to_string(j) + ":block#" + std::to_string(k) + " is " + std::to_string(l.gblock) + " exp " + std::to_string(e[k]) + ")"; break; }
    }
  }
  std::string races;
  for (int i = 0; i < vs_nraces; i++) {
    const vs_race_t &r = vs_races[i];
    races += (i ? "," : "") + (r.loc >= 32 ? std::string("stream") + std::to_string(r.loc - 32) : std::string(r.loc % 2 ? "bytes" : "cursor") + std::to_string(r.loc / 2)) + ":" + std::to_string(r.code_prev) + "/t" + std::to_string(r.t_prev) + "~" + std::to_string(r.code_now) + "/t" + std::to_string(r.t_now);
  }
  std::string ov;
  for (auto &o : g_overlap) ov += (ov.empty() ? "" : ",") + o;
  obs = "out=" + digest8(out) + ";mout=" + mout + ";mlog=" + mlog + ";races=" + (races.empty() ? "none" : races) + ";overlap=" + (ov.empty() ? "none" : ov) + ";threads=" + std::to_string(nthreads) + ";hooks=" + (g_hook_events > 0 ? "seen" : "MISSING") + (g_futex_seen ? ";futexwords=1" : "");
}

// end-to-end through runcrypt with the real AES streams, compared with the reference file
static void scenario_e2e(std::string &obs) {
  memset(g_io_busy, 0, sizeof g_io_busy);
  g_overlap.clear();
  int ifd = memfd_with(IN), ofd = memfd_with({});
  FILE *fi = fopen_fd(ifd, "rb"), *fo = fopen_fd(ofd, "wb+");
  StdoutSilencer sil;
  sil.on();
  Settings s(ENC ? CMODE : -1, ENC ? HMODE : -1, true);
  u8_t key[16];
  memcpy(key, KEY, 16);
  u8_t seed[256] = "seed";
  bool ok;
  {
    runcrypt r(fi, fo, key, s, Tn);
    vs_group_of = group_of;
    vs_obs_hash = obs_hash;
    obs = "running";
    vs_begin();
    ok = ENC ? r.execute_encrypt(HINT0 ? 0 : IN.size(), seed) : r.execute_decrypt(HINT0 ? 0 : IN.size());
    vs_end();
  }
  sil.off();
  Bytes out = slurp_fd(ofd);
  std::string races;
  for (int i = 0; i < vs_nraces; i++) races += (i ? "," : "") + std::string("loc") + std::to_string(vs_races[i].loc) + ":" + std::to_string(vs_races[i].code_prev) + "~" + std::to_string(vs_races[i].code_now);
  obs = std::string("ret=") + (ok ? "1" : "0") + ";out=" + digest8(out) + ";mout=" + (out == EXP ? "ok" : "BAD(len=" + std::to_string(out.size()) + ",exp=" + std::to_string(EXP.size()) + ")") + ";mlog=ok;races=" + (races.empty() ? "none" : races) + ";overlap=none;threads=" + std::to_string(vs_nthreads_seen);
}

struct Verdict { std::string prop, key, desc; };
static std::vector<Verdict> classify_all(const vx::Exec &x) {
  std::vector<Verdict> v;
  if (x.outcome == vx::OC_SLEEPBLOCKED) return v;
  if (x.outcome == vx::OC_EXIT && x.exitcode >= 93 && x.exitcode <= 99) { // a limit of the scheduler/harness itself (too many threads, mutexes, ...): cannot decide, never a verdict
    fprintf(stderr, "pipe_explore: the child hit a limit of the machinery (exit %d): %s\n", x.exitcode, x.fatal.c_str());
    _exit(92);
  }
  if (x.outcome == vx::OC_DEADLOCK) {
    v.push_back({"C04", "deadlock", "deadlock: " + x.fatal});
    size_t p = x.obs.find("abandoned=");
    if (p != std::string::npos) v.push_back({"C14", "chunk-abandoned", "a loaded chunk is left without its owner (the worker that owns its position has returned; blocks processed/loaded): " + x.obs.substr(p + 10)});
    return v;
  }
  if (x.outcome == vx::OC_HORIZON) { v.push_back({"C04", "livelock", "step horizon exceeded: " + x.fatal}); return v; }
  if (x.outcome == vx::OC_TIMEOUT) { v.push_back({"C04", "hang", "wall-clock alarm (loop without scheduling point?)"}); return v; }
  if (x.outcome == vx::OC_ASAN) { v.push_back({"C03", "memory-error", "AddressSanitizer report during pipeline run; obs=" + x.obs}); return v; }
  if (x.outcome == vx::OC_SIGNAL || x.outcome == vx::OC_EXIT) { v.push_back({"C03", "crash", "abnormal end: " + x.fatal}); return v; }
  if (x.outcome != vx::OC_OK) { v.push_back({"C03", "internal", std::string("unexpected outcome ") + vx::outcome_name(x.outcome)}); return v; }
  auto field = [&](const char *n) { size_t p = x.obs.find(std::string(n) + "="); if (p == std::string::npos) return std::string("?"); size_t e = x.obs.find(';', p); return x.obs.substr(p + strlen(n) + 1, e == std::string::npos ? std::string::npos : e - p - strlen(n) - 1); };
  if (field("ret") == "0") v.push_back({"C03", "operation-failed", "operation reported failure under this schedule"});
  if (field("mout") != "ok") v.push_back({"C03", "output-differs", "output differs from sequential reference: " + field("mout")});
  else if (field("mlog") != "ok") v.push_back({"C03", "block-log", "per-stream block log wrong: " + field("mlog")});
  if (field("mlog") != "ok") v.push_back({"C14", "chunk-assignment", "a chunk was not processed by its owner exactly once in file order: " + field("mlog")});
  if (field("races") != "none") v.push_back({"C14", "hb-race", "unordered accesses to a chunk buffer: " + field("races")});
  if (field("overlap") != "none") v.push_back({"C14", "overlap", "worker touched a buffer while the I/O thread was refilling/flushing it: " + field("overlap")});
  return v;
}
static std::string vkeys(const std::vector<Verdict> &v) { std::string s; for (auto &e : v) s += e.prop + "/" + e.key + ";"; return s; }

int main(int argc, char **argv) {
  Args a(argc, argv);
  { Bytes z(1); (void)digest8(z); std::string w; (void)ref::selftest(w); } // initialise libcrypto before any fork
  Tn = (int)a.num("T", 2);
  size_t len = (size_t)a.num("len", 0);
  ENC = (int)a.num("enc", 1);
  COARSE = (int)a.num("coarse", 0);
  SCEN = a.str("scenario", "pipe");
  STREAMPOINTS = (int)a.num("instr", 0);
  RAWDEC = (int)a.num("rawdec", 0); // decrypt direction on a raw body of exactly `len` bytes (need not be a multiple of 16): output is unspecified, termination and ownership are not
  CMODE = (int)a.num("cmode", 1);
  HINT0 = (int)a.num("hint0", 0);
  HMODE = (int)a.num("hmode", 0);
  vx::Config cfg;
  cfg.bound = (int)a.num("bound", 2);
  cfg.sleep = a.num("sleep", 0) != 0;
  cfg.delay = a.num("delay", 0) != 0;
  STATEFUL = (int)a.num("stateful", 0);
  cfg.stateful = STATEFUL != 0;
  if (cfg.stateful) cfg.bound = 1 << 20; // state matching replaces the preemption bound
  cfg.spurious = (int)a.num("spurious", 0);
  cfg.maxexec = a.num("maxexec", -1);
  cfg.deadline_s = (double)a.num("deadline", -1);
  cfg.until_epoch = (double)a.num("until", -1);
  cfg.shard = (int)a.num("shard", 0);
  cfg.nshards = (int)a.num("nshards", 1);
  cfg.alarm_s = (int)a.num("alarm", 10);
  cfg.horizon = a.num("horizon", 50000);
  Bytes P(len);
  for (size_t i = 0; i < len; i++) P[i] = (u8_t)(i * 7 + 1 + (i >> 4));
  vx::Scenario sc;
  if (SCEN == "pipe") {
    if (ENC) { IN = P; EXP = pad(P); chain_ref(EXP, Tn, true); }
    else if (RAWDEC) { IN = P; EXP.clear(); }
    else { IN = pad(P); chain_ref(IN, Tn, true); EXP = P; }
    sc = scenario_pipe;
  } else {
    std::string why;
    Bytes seed = {'s', 'e', 'e', 'd', 0};
    Bytes F = ref::encrypt(P, KEY, CMODE, HMODE, seed, Tn, S);
    if (ENC) { IN = P; EXP = F; } else { IN = F; EXP = P; }
    sc = scenario_e2e;
  }
  std::string cfgname = SCEN + ":T=" + std::to_string(Tn) + ",len=" + std::to_string(len) + ",enc=" + std::to_string(ENC) + ",S=" + std::to_string(S) + (RAWDEC ? ",rawbody" : "") + (STREAMPOINTS ? ",stream-code-points" : "") + (SCEN == "e2e" ? ",cmode=" + std::to_string(CMODE) : "") + (HINT0 ? ",size-argument=0" : "") + (COARSE == 1 ? ",medium" : COARSE == 2 ? ",coarse" : "") + (cfg.stateful ? std::string(",state-matching") : cfg.sleep ? ",sleepsets" : (cfg.delay ? ",delaybound=" : ",bound=") + std::to_string(cfg.bound)) + (cfg.spurious ? ",spurious=" + std::to_string(cfg.spurious) : "");

  if (a.has("dumpparts")) { // debugging aid for the state abstraction: run the default schedule twice and print the per-point hash components
    for (int k = 0; k < 2; k++) { vx::Exec x = vx::run_one(a.list("prefix"), cfg, sc); for (size_t i = 0; i < x.pts.size(); i++) printf("run%d pt%zu t%d ops=%016lx pc=%016lx mu=%016lx obs=%016lx\n", k, i, x.pts[i].chosen_tid, x.parts[4 * i], x.parts[4 * i + 1], x.parts[4 * i + 2], x.parts[4 * i + 3]); }
    return 0;
  }
  if (a.has("replay")) { // run one schedule twice, print observations, exit 0 iff identical
    std::vector<int> pre = a.list("replay");
    cfg.sleep = a.num("sleep", 0) != 0;
    vx::Exec x1 = vx::run_one_checked(pre, cfg, sc), x2 = vx::run_one_checked(pre, cfg, sc);
    std::vector<Verdict> v1 = classify_all(x1), v2 = classify_all(x2);
    std::string want = a.str("prop", "");
    std::string verdict = "holds";
    bool bad = false;
    for (auto &e : v1) if (want.empty() || e.prop == want) { if (!bad) verdict = e.prop + ":" + e.key + ": " + e.desc; bad = true; }
    bool det = x1.outcome == x2.outcome && x1.obs == x2.obs && vx::choices_of(x1) == vx::choices_of(x2);
    J().s("t", "replay").s("config", cfgname).s("outcome", vx::outcome_name(x1.outcome)).s("obs", x1.obs).s("fatal", x1.fatal).s("verdict", verdict).s("all", vkeys(v1))
        .bo("deterministic", det).raw("schedule", jarr(vx::choices_of(x1))).emit();
    return det ? (bad ? 1 : 0) : 3;
  }

  vx::Explorer ex;
  ex.cfg = cfg;
  ex.sc = sc;
  std::map<std::string, int> reported;
  long nsamples = 0;
  ex.on_exec = [&](const vx::Exec &x, const std::vector<int> &) {
    std::vector<Verdict> vs = classify_all(x);
    for (auto &e : vs) {
      std::string k = e.prop + "/" + e.key;
      if (reported[k]++ < 2) {
        // confirm by replaying the exact schedule once more before reporting
        std::vector<int> ch = vx::choices_of(x);
        vx::Config c2 = cfg;
        if (x.outcome == vx::OC_TIMEOUT) c2.alarm_s = cfg.alarm_s * 10;
        vx::Exec y = vx::run_one_checked(ch, c2, sc);
        if (x.outcome == vx::OC_TIMEOUT && y.outcome != vx::OC_TIMEOUT) { reported[k]--; continue; } // slow machine, not a hang
        bool same = false;
        for (auto &e2 : classify_all(y)) if (e2.prop == e.prop && e2.key == e.key) same = true;
        std::string rargs = "T=" + std::to_string(Tn) + " len=" + std::to_string(len) + " enc=" + std::to_string(ENC) + " scenario=" + SCEN + " cmode=" + std::to_string(CMODE) + " hmode=" + std::to_string(HMODE) + " hint0=" + std::to_string(HINT0) + " coarse=" + std::to_string(COARSE) + " rawdec=" + std::to_string(RAWDEC) + " instr=" + std::to_string(STREAMPOINTS) + " spurious=" + std::to_string(cfg.spurious) + " sleep=" + std::to_string(cfg.sleep ? 1 : 0) + " stateful=" + std::to_string(STATEFUL) + " prop=" + e.prop + " bufsz=" + std::to_string(NB);
        J().s("t", "viol").s("prop", e.prop).s("key", e.key).s("desc", "[" + cfgname + "] " + e.desc + " | deviations=" + std::to_string(vx::deviations_of(x)) + (same ? " | replayed: same verdict" : " | REPLAY DIFFERS: " + vkeys(classify_all(y))))
            .raw("replay", J().s("harness", "pipe_explore").s("args", rargs).raw("schedule", jarr(ch)).n("bufsz", NB).str()).bo("confirmed", same).emit();
      }
    }
    if (nsamples < 2 && x.outcome == vx::OC_OK && vx::deviations_of(x) >= (nsamples ? 1 : 0)) {
      nsamples++;
      J().s("t", "sample").s("config", cfgname).raw("schedule_choice_indices", jarr(vx::choices_of(x))).n("deviations", vx::deviations_of(x)).s("observation", x.obs).emit();
    }
  };
  ex.run();
  const vx::Stats &st = ex.st;
  if (a.has("hashout")) {
    FILE *f = fopen(a.str("hashout").c_str(), "wb");
    if (f) { for (auto h : st.states) fwrite(&h, 8, 1, f); fclose(f); }
  }
  std::map<std::string, long> oc(st.outcomes.begin(), st.outcomes.end());
  J().s("t", "cov").n("evaluations", st.executions).n("transitions", st.transitions).n("nontrivial", st.nontrivial).n("states_shard", (long)st.states.size()).n("sleepblocked", st.sleepblocked)
      .n("distinct_observations", (long)st.observations.size()).n("capped", st.capped ? 1 : 0)
      .n("state_cuts", st.state_cuts).n("successor_checks", st.succ_checked).n("successor_mismatches", st.succ_mismatch).emit();
  if (cfg.stateful) J().s("t", "flag").s("name", "abstraction_deterministic").bo("value", st.succ_mismatch == 0).emit();
  J().s("t", "hist").s("name", "outcomes").raw("counts", jmap(oc)).emit();
  { bool fx = false; for (auto &o : st.observations) if (o.first.find("futexwords=1") != std::string::npos) fx = true; J().s("t", "flag").s("name", "no_futex_words").bo("value", !fx).emit(); }
  if (SCEN == "pipe") { bool seen = true; for (auto &o : st.observations) if (o.first.find("hooks=MISSING") != std::string::npos) seen = false; J().s("t", "flag").s("name", "hooks_seen").bo("value", seen).emit(); }
  J().s("t", "info").s("config", cfgname).n("executions", st.executions).n("states", (long)st.states.size()).n("max_deviations", st.max_preemptions_seen).bo("completed", !st.capped).n("distinct_observations", (long)st.observations.size()).n("shard", cfg.shard).emit();
  return 0;
}
