// histories.cpp - C15: every sequence of operations up to a depth, each history in one fresh process;
// differential oracle: the i-th operation must observe what the same operation observes alone in a
// fresh process. The canonical process-wide state after every step is recorded (distinct states reported).
// usage: histories tier=quick|thorough depth=<d> [shard= nshards=] [single=<case>]
#include "cases.hpp"
#include "fileops.hpp"
#include "getval.h"
#include <dirent.h>
#include <getopt.h>
#include <openssl/sha.h>
#include <sys/stat.h>

using namespace cs;
static const size_t S = fo::S;
static const unsigned char *KEY = fo::KEYS[0];
static const char *KEYTXT = "ABEiM0RVZneImaq7zN3u/w=="; // base64 of fo::KEYS[0]

static std::string dig(const Bytes &b) { unsigned char d[32]; SHA256(b.data(), b.size(), d); return hex(d, 6) + "/" + std::to_string(b.size()); }
static std::string TMP;
static Bytes slurp(const std::string &p) { Bytes b; FILE *f = fopen(p.c_str(), "rb"); if (!f) return b; unsigned char buf[4096]; size_t k; while ((k = fread(buf, 1, sizeof buf, f)) > 0) b.insert(b.end(), buf, buf + k); fclose(f); return b; }
static void spit(const std::string &p, const Bytes &b) { FILE *f = fopen(p.c_str(), "wb"); if (b.size()) fwrite(b.data(), 1, b.size(), f); fclose(f); }

// in-process equivalent of main(): parse, then run the requested operation
static std::string exec_cli(std::vector<std::string> args, const std::string &outfile_to_check, const Bytes &plain) {
  std::vector<char *> av;
  static std::vector<std::string> keep; // getopt may keep pointers into argv between calls
  keep = args;
  for (auto &s : keep) av.push_back(&s[0]);
  av.push_back(nullptr);
  unsigned char *vals = get_v_opt((int)args.size(), av.data());
  if (vals == NULL) return "parsed=NULL";
  vpak_t *v = (vpak_t *)vals;
  std::string o = std::string("mode=") + v->mode;
  if (v->mode == 'V' || v->mode == 'h') return o;
  bool flag;
  {
    Settings st(v->ctype, v->htype, true);
    runcrypt r(v->fp, v->out, v->key, st);
    fo::canon_begin();
    if (v->mode == 'e') flag = r.execute_encrypt(v->size, v->r_buf);
    else if (v->mode == 'd') flag = r.execute_decrypt(v->size);
    else flag = r.execute_verify(v->size);
    fo::canon_end();
  }
  o += std::string(",ret=") + (flag ? "1" : "0");
  if (!outfile_to_check.empty()) {
    Bytes f = slurp(outfile_to_check);
    if (v->mode == 'e') { ref::Dec d = ref::decrypt(f, KEY, 4, S); o += (d.code == 0 && d.plain == plain) ? ",file=decrypts-to-plaintext" : ",file=BAD(code " + std::to_string(d.code) + ")"; } // IVs are random: compare through the reference
    else o += ",out=" + dig(f);
  }
  return o;
}

struct Fixture { Bytes plain2, file2, tampered, badhdr, plainA, plainB, plain4, file4, plain1, file1, fileK2, tiny1; unsigned char key2[16]; std::string pA, pAenc, pOut, pDec; };
static Fixture FX;
static void make_fixture() {
  FX.plain2 = fo::content(3, 2 * S + 7); // every block ends in a byte that looks like PKCS#7 padding
  FX.file2 = ref::encrypt(FX.plain2, KEY, 1, 0, fo::cstr_seed("seed"), 2, S);
  FX.tampered = FX.file2; FX.tampered[FX.tampered.size() - 3] ^= 1;
  FX.badhdr = FX.file2; FX.badhdr[9] = 7;
  FX.plainA = fo::content(0, 3 * S + 1);
  FX.plainB = fo::content(4, 5 * S + 3);
  FX.plain4 = fo::content(3, 9 * S + 16);
  FX.file4 = ref::encrypt(FX.plain4, KEY, 2, 1, fo::cstr_seed("f4"), 4, S);
  memcpy(FX.key2, KEY, 16); FX.key2[5] ^= 0x40; FX.key2[15] ^= 0x01; // a second key: same first bytes (0x00 first), differs later
  FX.fileK2 = ref::encrypt(FX.plain2, FX.key2, 1, 0, fo::cstr_seed("k2"), 2, S);
  FX.tiny1 = ref::encrypt(fo::content(0, 5), KEY, 0, 0, fo::cstr_seed("t1"), 1, S); // 84 bytes: shorter than the header a 4-worker reader expects (128)
  FX.plain1 = fo::content(3, 3 * S);
  FX.file1 = ref::encrypt(FX.plain1, KEY, 3, 2, fo::cstr_seed("f1"), 1, S);
}
static void make_files() { // per-process files for the command-line operations
  TMP = std::string(access("/dev/shm", W_OK) == 0 ? "/dev/shm" : "/tmp") + "/wencry-c15-" + std::to_string(getpid());
  mkdir(TMP.c_str(), 0700);
  FX.pA = TMP + "/a.bin"; FX.pAenc = TMP + "/a.enc"; FX.pOut = TMP + "/out.wenc"; FX.pDec = TMP + "/out.dec";
  spit(FX.pA, FX.plainA);
  spit(FX.pAenc, ref::encrypt(FX.plainA, KEY, 3, 2, fo::cstr_seed("fixture"), 4, S));
}
static void remove_files() { for (auto p : {FX.pA, FX.pAenc, FX.pOut, FX.pDec}) unlink(p.c_str()); rmdir(TMP.c_str()); }

static const char *OPN[] = {"enc(T=1,n=0)", "enc(T=4,multi-chunk,CTR,md5)", "enc(T=16,n=40)", "dec(valid,T=2)", "dec(tampered)", "dec(wrong key)", "dec(mode byte out of range)", "verify(valid)", "verify(tampered)",
                            "cli -e -i F -k K --cmode 1 -o O", "cli -e -d (two modes)", "cli -edv (fails inside a cluster)", "cli -d -i F.enc -k K -o O", "cli -v -i F.enc -k K", "cli -n -e (no input)", "cli --cmode 9 -e -i F", "dec(valid,T=4,10 chunks,pad-like)", "dec(valid,T=1,4 chunks,pad-like)", "enc(second key,T=2)", "dec(valid file of the second key,T=2)",
                            "cli --cmode 99999999999999999999 -e -i F (number overflows)", "cli -e -i F -k K --cmode 2 --hmode 1 -o O",
                            "dec(the file given as valid before, altered in place: same inode, size and times)", "dec(the file given as tampered before, repaired in place)", "dec(5-byte file written with T=1, read with T=4)"};
static const int NOPS = 25;
static bool is_cli(int op) { return (op >= 9 && op <= 15) || op >= 20; }
static std::string do_op(int op) {
  unsigned char wrong[16];
  memcpy(wrong, KEY, 16);
  wrong[5] ^= 0x40;
  switch (op) {
  case 0: { fo::OpResult r = fo::wc_encrypt(Bytes(), KEY, 1, 0, "seed", 1); return std::string("ret=") + (r.ret ? "1" : "0") + ",out=" + dig(r.out); }
  case 1: { fo::OpResult r = fo::wc_encrypt(FX.plainB, KEY, 2, 1, "s2", 4); return std::string("ret=") + (r.ret ? "1" : "0") + ",out=" + dig(r.out); }
  case 2: { fo::OpResult r = fo::wc_encrypt(fo::content(0, 40), KEY, 4, 2, "s3", 16); return std::string("ret=") + (r.ret ? "1" : "0") + ",out=" + dig(r.out); }
  case 3: { fo::OpResult r = fo::wc_decrypt(FX.file2, KEY, 2); return std::string("ret=") + (r.ret ? "1" : "0") + ",out=" + dig(r.out); }
  case 4: { fo::OpResult r = fo::wc_decrypt(FX.tampered, KEY, 2); return std::string("ret=") + (r.ret ? "1" : "0") + ",out=" + dig(r.out); }
  case 5: { fo::OpResult r = fo::wc_decrypt(FX.file2, wrong, 2); return std::string("ret=") + (r.ret ? "1" : "0") + ",out=" + dig(r.out); }
  case 6: { fo::OpResult r = fo::wc_decrypt(FX.badhdr, KEY, 2); return std::string("ret=") + (r.ret ? "1" : "0") + ",out=" + dig(r.out); }
  case 7: { fo::OpResult r = fo::wc_verify(FX.file2, KEY, 2); return std::string("ret=") + (r.ret ? "1" : "0") + ",out=" + dig(r.out); }
  case 8: { fo::OpResult r = fo::wc_verify(FX.tampered, KEY, 2); return std::string("ret=") + (r.ret ? "1" : "0") + ",out=" + dig(r.out); }
  case 9: unlink(FX.pOut.c_str()); return exec_cli({"wencry", "-e", "-i", FX.pA, "-k", KEYTXT, "--cmode", "1", "-o", FX.pOut}, FX.pOut, FX.plainA);
  case 10: return exec_cli({"wencry", "-e", "-d"}, "", {});
  case 11: return exec_cli({"wencry", "-edv"}, "", {});
  case 12: unlink(FX.pDec.c_str()); return exec_cli({"wencry", "-d", "-i", FX.pAenc, "-k", KEYTXT, "-o", FX.pDec}, FX.pDec, {});
  case 13: return exec_cli({"wencry", "-v", "-i", FX.pAenc, "-k", KEYTXT}, "", {});
  case 14: return exec_cli({"wencry", "-n", "-e"}, "", {});
  case 15: return exec_cli({"wencry", "--cmode", "9", "-e", "-i", FX.pA}, "", {});
  case 16: { fo::OpResult r = fo::wc_decrypt(FX.file4, KEY, 4); return std::string("ret=") + (r.ret ? "1" : "0") + ",out=" + dig(r.out); }
  case 18: { fo::OpResult r = fo::wc_encrypt(FX.plainB, FX.key2, 1, 2, "s18", 2); return std::string("ret=") + (r.ret ? "1" : "0") + ",out=" + dig(r.out); }
  case 19: { fo::OpResult r = fo::wc_decrypt(FX.fileK2, FX.key2, 2); return std::string("ret=") + (r.ret ? "1" : "0") + ",out=" + dig(r.out); }
  case 20: return exec_cli({"wencry", "--cmode", "99999999999999999999", "-e", "-i", FX.pA}, "", {}); // leaves errno = ERANGE (and whatever else a failed conversion leaves) behind
  case 21: unlink(FX.pOut.c_str()); return exec_cli({"wencry", "-e", "-i", FX.pA, "-k", KEYTXT, "--cmode", "2", "--hmode", "1", "-o", FX.pOut}, FX.pOut, FX.plainA);
  case 22: { fo::alter_in_place(FX.file2, FX.tampered); fo::OpResult r = fo::wc_decrypt(FX.tampered, KEY, 2); return std::string("ret=") + (r.ret ? "1" : "0") + ",out=" + dig(r.out); }
  case 23: { fo::alter_in_place(FX.tampered, FX.file2); fo::OpResult r = fo::wc_decrypt(FX.file2, KEY, 2); return std::string("ret=") + (r.ret ? "1" : "0") + ",out=" + dig(r.out); }
  case 24: { fo::OpResult r = fo::wc_decrypt(FX.tiny1, KEY, 4); return std::string("ret=") + (r.ret ? "1" : "0") + ",out=" + dig(r.out); }
  case 17: { fo::OpResult r = fo::wc_decrypt(FX.file1, KEY, 1); return std::string("ret=") + (r.ret ? "1" : "0") + ",out=" + dig(r.out); }
  }
  return "?";
}
static int count_dir(const char *p) { int n = 0; DIR *d = opendir(p); if (!d) return -1; while (readdir(d)) n++; closedir(d); return n - 2; }
static std::string canon_state() {
  return "live=" + std::to_string((int)bufferctrl::live_num) + ",inst=" + (buffergroup::instance ? "set" : "null") + ",threads=" + std::to_string(count_dir("/proc/self/task"));
}

static std::vector<std::string> SOLO;
static std::string solo_of(int op) { // observation of `op` alone in a fresh process
  std::string res;
  run_batch(1, [&](long) { make_files(); std::string o = do_op(op); remove_files(); return o; }, [&](long, const CaseResult &cr) { res = cr.died ? "DIED(" + describe_death(cr) + ")" : cr.obs; }, 60);
  return res;
}
static std::string run_history(const Case &c) {
  std::vector<int> ops;
  { std::stringstream ss(c.str("h")); std::string t; while (std::getline(ss, t, '.')) ops.push_back(atoi(t.c_str())); }
  make_files();
  std::string init = canon_state(), states = init, bad;
  for (size_t i = 0; i < ops.size(); i++) {
    std::string o = do_op(ops[i]);
    std::string st = canon_state();
    states += ";" + st;
    if (o != SOLO[ops[i]] && bad.empty()) {
      std::string hist;
      for (size_t k = 0; k <= i; k++) hist += (k ? " ; " : "") + std::string(OPN[ops[k]]);
      bad = std::string("differs-from-fresh-process:") + (is_cli(ops[i]) ? "cli" : "library") + "|operation #" + std::to_string(i + 1) + " of [" + hist + "] observes {" + o + "}, alone in a fresh process it observes {" + SOLO[ops[i]] + "}";
    }
  }
  remove_files();
  return "#" + std::to_string(ops.size()) + "#" + (bad.empty() ? "+" + states : bad);
}

int main(int argc, char **argv) {
  { std::string w; if (ref::selftest(w)) { fprintf(stderr, "reference self-test failed: %s\n", w.c_str()); return 9; } }
  Args a(argc, argv);
  bool thorough = a.str("tier", "quick") == "thorough";
  int depth = (int)a.num("depth", thorough ? 4 : 3);
  make_fixture();
  init_json_channel(); // before the solo runs: they print
  for (int op = 0; op < NOPS; op++) SOLO.push_back(solo_of(op));
  Spec sp;
  sp.harness = "histories";
  sp.build = [&](const Args &, std::vector<Case> &out) {
    std::vector<std::vector<int>> level = {{}};
    for (int d = 1; d <= depth; d++) {
      std::vector<std::vector<int>> next;
      for (auto &h : level)
        for (int op = 0; op < NOPS; op++) {
          // thorough (depth 4): the full alphabet at every level
          auto g = h; g.push_back(op); next.push_back(g);
          Case c;
          std::string s;
          for (size_t k = 0; k < g.size(); k++) s += (k ? "." : "") + std::to_string(g[k]);
          c.set("h", s);
          c.cls = "depth=" + std::to_string(d) + ",last=" + std::to_string(op) + ",first=" + std::to_string(g[0]);
          out.push_back(c);
        }
      level = next;
    }
  };
  sp.run = run_history;
  sp.on_death = [](const Case &c, const CaseResult &cr) {
    return "abnormal-end:" + std::string(cr.exitcode == 42 ? "deadlock" : cr.exitcode == 77 ? "memory-error(ASan)" : cr.timeout ? "hang" : "crash") + "|history " + c.str("h") + " did not run to its end: " + describe_death(cr);
  };
  sp.alarm_s = 15;
  // one history per child: the whole point is a fresh process image per history
  // (cases.hpp runs consecutive cases in one child, so wrap each case in its own fork)
  auto inner = sp.run;
  sp.run = [inner](const Case &c) {
    // every confirmed hang costs minutes; after two of them this shard has its verdict (the check fails) and skips the rest - reported as a cap
    static int hangs = 0;
    if (hangs >= 2) {
      static bool told = false;
      if (!told) { told = true; J().s("t", "cov").n("stopped_after_repeated_hangs", 1).emit(); }
      return std::string("+skipped-after-repeated-hangs");
    }
    std::string res = "internal|no result";
    run_batch(1, [&](long) { return inner(c); }, [&](long, const CaseResult &cr) {
      if (cr.died) res = "abnormal-end:" + std::string(cr.exitcode == 42 ? "deadlock" : cr.exitcode == 77 ? "memory-error(ASan)" : cr.timeout ? "hang" : "crash") + "|history " + c.str("h") + " did not run to its end: " + describe_death(cr);
      else res = cr.obs;
    }, 15);
    if (res.rfind("abnormal-end:hang", 0) == 0) hangs++;
    return res;
  };
  // solo observations are part of the report
  for (int op = 0; op < NOPS; op++) J().s("t", "info").s("operation", OPN[op]).s("alone_in_fresh_process", SOLO[op]).emit();
  for (int op = 0; op < NOPS; op++)
    if (SOLO[op].rfind("DIED", 0) == 0) J().s("t", "viol").s("key", std::string("abnormal-end:solo:") + (is_cli(op) ? "cli" : "library")).s("desc", std::string(OPN[op]) + " alone: " + SOLO[op]).raw("replay", J().s("harness", "histories").s("args", "tier=quick").s("single", "h=" + std::to_string(op)).str()).emit();
  return main_loop(argc, argv, sp);
}
