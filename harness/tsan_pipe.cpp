// tsan_pipe.cpp - auxiliary, FREE-RUNNING ThreadSanitizer pass over the same pipeline bodies (no controlled
// scheduler: its hand-offs would hide races from TSan). Samples schedules; only adds alarms for real races.
// usage: tsan_pipe runs=<n>
#include "multicry.h"
#include "vfc.hpp"
using namespace vfc;
static const u32_t S = iobuffer::sum;
struct ChainEnc : Aesmode { u8_t st[16]; ChainEnc(const u8_t *iv) : Aesmode(iv) { memcpy(st, iv, 16); } void runcry(u8_t *b) override { for (int i = 0; i < 16; i++) { b[i] ^= st[i] ^ 0x5a; st[i] = (u8_t)(b[i] * 3 + 1); } } };
struct ChainDec : Aesmode { u8_t st[16]; ChainDec(const u8_t *iv) : Aesmode(iv) { memcpy(st, iv, 16); } void runcry(u8_t *b) override { for (int i = 0; i < 16; i++) { u8_t c = b[i]; b[i] ^= st[i] ^ 0x5a; st[i] = (u8_t)(c * 3 + 1); } } };
static const u8_t IV0[16] = {1, 2, 3, 4, 5, 6, 7, 8, 9, 10, 11, 12, 13, 14, 15, 16};
static Bytes run(const Bytes &in, int T, bool enc) {
  int ifd = memfd_with(in), ofd = memfd_with({});
  FILE *fi = fopen_fd(ifd, "rb"), *fo = fopen_fd(ofd, "wb+");
  std::vector<Aesmode *> m;
  for (int i = 0; i < T; i++) m.push_back(enc ? (Aesmode *)new ChainEnc(IV0) : (Aesmode *)new ChainDec(IV0));
  buffergroup::get_instance()->set_buffergroup(T, fi, fo, enc);
  multicry_master mm(T);
  mm.run_multicry(m.data(), [](std::string, size_t) {});
  buffergroup::del_instance();
  fclose(fo); fclose(fi);
  Bytes out = slurp_fd(ofd);
  close(ifd); close(ofd);
  for (auto p : m) delete p;
  return out;
}
int main(int argc, char **argv) {
  Args a(argc, argv);
  long runs = a.num("runs", 200), done = 0, bad = 0;
  for (long r = 0; r < runs; r++) {
    int T = 1 + (int)(r % 4);
    size_t len = (size_t)((r * 37) % (6 * S + 5));
    Bytes P(len);
    for (size_t i = 0; i < len; i++) P[i] = (u8_t)(i * 7 + r);
    Bytes C = run(P, T, true), D = run(C, T, false);
    done += 2;
    if (D != P) bad++;
  }
  J().s("t", "tsan").n("pipeline_runs", done).n("roundtrip_mismatches", bad).emit();
  return 0;
}
