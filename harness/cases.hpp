// cases.hpp - generic "enumerate every case of a finite grid" harness skeleton.
// A property file supplies: build_cases(mode, tier, out), run_case(c) -> "" (holds) or "key|description",
// optionally "K|key|description" style strings. This header supplies sharding, fork isolation (a crash,
// sanitizer report, deadlock or hang in one case is an outcome of that case), JSON reporting and
// single-case replay (`single=<case id>` runs the case twice in fresh children and compares).
#pragma once
#include "vfc.hpp"

namespace cs {
using namespace vfc;

struct Case {
  std::map<std::string, std::string> kv;
  std::string cls; // structural class, for the distinct count
  Case &set(const std::string &k, long v) { kv[k] = std::to_string(v); return *this; }
  Case &set(const std::string &k, const std::string &v) { kv[k] = v; return *this; }
  long num(const std::string &k, long d = 0) const { auto i = kv.find(k); return i == kv.end() ? d : atol(i->second.c_str()); }
  std::string str(const std::string &k, const std::string &d = "") const { auto i = kv.find(k); return i == kv.end() ? d : i->second; }
  std::string id() const { std::string s; for (auto &e : kv) { if (!s.empty()) s += ","; s += e.first + "=" + e.second; } return s; }
  static Case parse(const std::string &s) {
    Case c;
    size_t p = 0;
    while (p < s.size()) {
      size_t e = s.find(',', p);
      if (e == std::string::npos) e = s.size();
      std::string t = s.substr(p, e - p);
      size_t q = t.find('=');
      if (q != std::string::npos) c.kv[t.substr(0, q)] = t.substr(q + 1);
      p = e + 1;
    }
    return c;
  }
};

struct Spec {
  std::string harness;                                     // executable name, for replay files
  std::function<void(const Args &, std::vector<Case> &)> build; // enumerate the cases of this mode/tier
  // lazy alternative for large grids: number of cases and the i-th case
  std::function<size_t(const Args &)> lazy_count;
  std::function<Case(size_t)> lazy_get;
  std::function<std::string(const Case &)> run;            // "" = holds; otherwise "key|description"
  // classification of an abnormal end of a case (crash, ASan, deadlock, timeout): key|description;
  // return "" to accept it (never the default)
  std::function<std::string(const Case &, const CaseResult &)> on_death;
  int alarm_s = 30;
  // build() already kept only the cases of this shard (index mod nshards == shard), counting all of them in presharded_total:
  // a thorough grid has millions of cases and every shard would otherwise hold the whole list (gigabytes per process)
  bool presharded = false;
  size_t presharded_total = 0;
};

inline int main_loop(int argc, char **argv, Spec &sp) {
  Args a(argc, argv);
  init_json_channel();
  std::string extra; // arguments that select mode/tier, repeated in replay files
  for (auto &e : a.m)
    if (e.first != "shard" && e.first != "nshards" && e.first != "single") extra += (extra.empty() ? "" : " ") + e.first + "=" + e.second;
  if (a.has("single")) {
    Case c = Case::parse(a.str("single"));
    std::string res[2];
    for (int k = 0; k < 2; k++) {
      bool got = false;
      run_batch(1, [&](long) { return sp.run(c); }, [&](long, const CaseResult &cr) {
        got = true;
        if (cr.died) res[k] = sp.on_death ? sp.on_death(c, cr) : ("abnormal|" + describe_death(cr));
        else res[k] = cr.obs;
        if (!res[k].empty() && res[k][0] == '#') { size_t e = res[k].find('#', 1); res[k] = e == std::string::npos ? "" : res[k].substr(e + 1); }
        if (!res[k].empty() && res[k][0] == '+') res[k].clear();
      }, sp.alarm_s * 4);
      if (!got) res[k] = "internal|no result";
    }
    J().s("t", "replay").s("case", c.id()).s("verdict", res[0].empty() ? "holds" : res[0]).bo("deterministic", res[0] == res[1]).emit();
    if (res[0] != res[1]) return 3;
    return res[0].empty() ? 0 : 1;
  }
  std::vector<Case> all;
  size_t total = 0;
  if (sp.lazy_get) total = sp.lazy_count(a);
  else { sp.build(a, all); total = sp.presharded ? sp.presharded_total : all.size(); }
  int shard = (int)a.num("shard", 0), nshards = (int)a.num("nshards", 1);
  std::vector<size_t> mine_idx;
  if (sp.presharded) { for (size_t i = 0; i < all.size(); i++) mine_idx.push_back(i); }
  else
    for (size_t i = 0; i < total; i++)
      if ((long)(i % nshards) == shard) mine_idx.push_back(i);
  auto getcase = [&](long k) -> Case { return sp.lazy_get ? sp.lazy_get(mine_idx[k]) : all[mine_idx[k]]; };
  struct MineView { std::vector<size_t> *v; size_t size() const { return v->size(); } } mine{&mine_idx};
  std::set<std::string> classes;
  std::vector<std::string> new_classes;
  std::map<std::string, long> outcomes;
  std::map<std::string, int> reported;
  long evals = 0, nviol = 0, machinery_failures = 0, emitted_evals = 0;
  size_t sample_every = mine.size() / 3 + 1;
  auto sink = [&](long k, const CaseResult &cr) {
    Case c = getcase(k);
    long sub = 1;
    if (classes.insert(c.cls).second) new_classes.push_back(c.cls);
    std::string v;
    if (cr.died && !cr.sig && cr.exitcode >= 93 && cr.exitcode <= 99) { // a limit or internal error of the scheduler/harness itself (too many threads, mutexes, points, pipe failure): never a verdict
      machinery_failures++;
      if (machinery_failures <= 3) J().s("t", "info").s("machinery_failure", "exit " + std::to_string(cr.exitcode) + " in case " + c.id()).emit();
      return;
    }
    if (cr.died) v = sp.on_death ? sp.on_death(c, cr) : ("abnormal:" + describe_death(cr) + "|case ended abnormally: " + describe_death(cr));
    else v = cr.obs;
    if (!v.empty() && v[0] == '#') { size_t e = v.find('#', 1); sub = atol(v.c_str() + 1); v = e == std::string::npos ? "" : v.substr(e + 1); } // "#n#rest": n evaluations inside this case
    evals += sub;
    if (evals - emitted_evals >= 4000) { // progress records: a shard that is stopped at the check's deadline has still reported what it covered
      J().s("t", "cov").n("evaluations", evals - emitted_evals).emit();
      emitted_evals = evals;
      J().s("t", "set").s("name", "classes").raw("items", jarrs(new_classes)).emit();
      new_classes.clear();
    }
    std::string okinfo;
    if (!v.empty() && v[0] == '+') { okinfo = v.substr(1); v.clear(); } // "+text": holds, with an annotation for samples/outcome histogram
    if (v.empty()) {
      outcomes[okinfo.empty() ? "holds" : "holds:" + okinfo.substr(0, okinfo.find(' '))]++;
      if ((size_t)k % sample_every == 0) J().s("t", "sample").s("case", c.id()).s("class", c.cls).s("result", okinfo.empty() ? "holds" : okinfo).emit();
      return;
    }
    nviol++;
    size_t bar = v.find('|');
    std::string key = bar == std::string::npos ? v : v.substr(0, bar), desc = bar == std::string::npos ? "" : v.substr(bar + 1);
    outcomes["VIOLATION:" + key]++;
    if (reported[key]++ < 3)
      J().s("t", "viol").s("key", key).s("desc", desc + " [case " + c.id() + "]").raw("replay", J().s("harness", sp.harness).s("args", extra).s("single", c.id()).str()).emit();
  };
  run_batch((long)mine.size(), [&](long k) { return sp.run(getcase(k)); }, sink, sp.alarm_s, 5);
  bool capped = (size_t)(evals ? 1 : 0) && outcomes.size() && [&] { long seen = 0; for (auto &o : outcomes) seen += o.second; return seen < (long)mine.size(); }();
  std::vector<std::string> cl(classes.begin(), classes.end());
  J().s("t", "cov").n("evaluations", evals - emitted_evals).n("cases_total", (long)total).n("violating_cases", nviol).n("stopped_after_repeated_hangs", capped ? 1 : 0).emit();
  J().s("t", "flag").s("name", "machinery_ok").bo("value", machinery_failures == 0).emit();
  J().s("t", "set").s("name", "classes").raw("items", jarrs(cl)).emit();
  J().s("t", "hist").s("name", "outcomes").raw("counts", jmap(outcomes)).emit();
  return 0;
}
} // namespace cs
