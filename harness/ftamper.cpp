// ftamper.cpp - fault enumeration on encrypted files:
//   mode=c05  every single modification of reference-produced files; oracle: failure, or success with the original plaintext
//   mode=c06  every single-bit neighbour of the key (+ a few others); oracle: failure and no output
//   mode=c11  malformed inputs (truncations, short files, bad magic, every mode-byte pair, wrong tags); oracle: clean failure
//   mode=c12  union of the three corpora; oracle: verify == decrypt, verify writes nothing, inputs intact
// usage: ftamper mode=.. tier=quick|thorough [shard= nshards=] [single=<case>]
#include "cases.hpp"
#include "fileops.hpp"

using namespace cs;
static const size_t S = fo::S;
static const unsigned char *KEY = fo::KEYS[0];
// key alphabet for the wrong-key check: 0x00 first / no zero byte / 0x00 in the middle (a key is a binary string, not a C string)
static const unsigned char KEYALT[3][16] = {{0x00, 0x11, 0x22, 0x33, 0x44, 0x55, 0x66, 0x77, 0x88, 0x99, 0xaa, 0xbb, 0xcc, 0xdd, 0xee, 0xff}, {0x2b, 0x7e, 0x15, 0x16, 0x28, 0xae, 0xd2, 0xa6, 0xab, 0xf7, 0x15, 0x88, 0x09, 0xcf, 0x4f, 0x3c}, {0x61, 0x62, 0x63, 0x64, 0x65, 0x66, 0x67, 0x00, 0x30, 0x31, 0x32, 0x33, 0x34, 0x35, 0x36, 0x37}};
static const unsigned char *key_of(int kk) { return KEYALT[kk % 3]; }

// ---- base files (made by the reference, not by wencry) ------------------------------------------------
struct Base { int cm, hm, T; size_t n; bool self = false; int kk = 0; long ffat = -1; }; // ffat: file offset whose ciphertext byte is made 0xFF (CTR bases only) // self: file written by wencry's own encrypt instead of the reference
static std::vector<size_t> base_sizes() { return {0, 5, 16, S - 1, S, 2 * S + 3}; }
static std::vector<Base> bases(bool thorough, bool small) {
  std::vector<Base> v;
  std::vector<size_t> sz = base_sizes();
  int Ts[3] = {1, 2, 4};
  if (thorough && !small) {
    for (int cm = 0; cm < 5; cm++) for (int hm = 0; hm < 3; hm++) for (int t = 0; t < 3; t++) for (size_t n : sz) v.push_back({cm, hm, Ts[t], n});
  } else {
    // 30 files: every cipher mode x hash mode once, T and size rotating so that each (T,size) pair and each mode pair occurs
    int k = 0;
    for (int rep = 0; rep < 2; rep++)
      for (int cm = 0; cm < 5; cm++) for (int hm = 0; hm < 3; hm++, k++) v.push_back({cm, hm, Ts[(k + rep) % 3], sz[(k * 5 + rep * 3 + cm) % sz.size()]});
    if (small && !thorough) v.resize(10);
  }
  // the tag is a hash over 64 + 20T + 16k bytes: its length mod 64 is 56 or 60 (two-block padding) only for T mod 4 in {2,3}
  // and one residue class of the block count k - thread counts the command line never uses
  if (!small) { v.push_back({1, 0, 3, 50}); v.push_back({2, 1, 6, 50}); v.push_back({3, 2, 7, 40}); v.push_back({4, 0, 2, 37}); }
  // files longer than one refill of the hashing buffer whose byte right behind the refill boundary is 0xFF (and 0x00): a byte value
  // that a look-ahead could mistake for "no more data"; the alterations behind it must still be refused
  if (!small) {
    long fill = 64 * (long)filebuffer64::HBUF_SZ;
    Base a{2, 0, 1, (size_t)fill + 40}; a.ffat = 48 + fill; v.push_back(a);
    Base b{2, 2, 2, (size_t)fill + 70}; b.ffat = 48 + fill; b.self = true; v.push_back(b);
  }
  return v;
}
static Bytes plain_of(const Base &b) {
  Bytes p = fo::content(0, b.n);
  if (b.ffat >= 0 && b.cm == 2) { // CTR: ciphertext byte i depends on plaintext byte i only
    Bytes f = ref::encrypt(p, KEYALT[b.kk % 3], b.cm, b.hm, fo::cstr_seed("seed"), b.T, S);
    size_t bo = (size_t)b.ffat - (48 + 20 * (size_t)b.T);
    if (bo < p.size() && (size_t)b.ffat < f.size()) p[bo] ^= f[b.ffat] ^ 0xff;
  }
  return p;
}
static Bytes file_of(const Base &b) {
  static std::map<std::string, Bytes> cache;
  std::string k = std::to_string(b.cm) + "," + std::to_string(b.hm) + "," + std::to_string(b.T) + "," + std::to_string(b.n) + "," + std::to_string(b.self) + "," + std::to_string(b.kk) + "," + std::to_string(b.ffat);
  auto it = cache.find(k);
  if (it != cache.end()) return it->second;
  Bytes f;
  if (b.self) { fo::OpResult e = fo::wc_encrypt(plain_of(b), key_of(b.kk), b.cm, b.hm, "seed", b.T); f = e.out; }
  else f = ref::encrypt(plain_of(b), key_of(b.kk), b.cm, b.hm, fo::cstr_seed("seed"), b.T, S);
  return cache[k] = f;
}
static std::string region(size_t off, const Base &b, size_t L) {
  size_t hl = ref::hlen_of(b.hm), hdr = 48 + 20 * (size_t)b.T;
  if (off < 8) return "magic";
  if (off == 8) return "cmode-byte";
  if (off == 9) return "hmode-byte";
  if (off < 10 + hl) return "tag";
  if (off < 48) return "zero-fill";
  if (off < hdr) return "iv-fields";
  if (off < L) return "body";
  return "end";
}

// ---- modification enumeration ------------------------------------------------------------------------------
enum { M_BITFLIP, M_SETBYTE, M_TRUNC, M_EXTEND, M_DELBYTE, M_INSBYTE, M_DELBLOCK, M_INSBLOCK, M_SWAPBLOCKS, M_SWAPCHUNKS, M_SWAPIVS, M_HDRxBIT, M_TAGZxBODY, M_NKINDS };
static const char *MK[] = {"bitflip", "setbyte", "truncate", "extend", "delbyte", "insbyte", "delblock", "insblock", "swapblocks", "swapchunks", "swapivs", "hdrbyte+bodybit", "tagbyte:=00+bodybyte"};
static size_t npairs(size_t k) { return k * (k - 1) / 2; }
static void pair_of(size_t idx, size_t k, size_t &a, size_t &b) { for (a = 0; a < k; a++) { size_t cnt = k - 1 - a; if (idx < cnt) { b = a + 1 + idx; return; } idx -= cnt; } a = 0; b = 1; }
static size_t mod_count(const Base &b, int kind, bool thorough) {
  size_t hdr = 48 + 20 * (size_t)b.T, L = hdr + 16 * (b.n / 16 + 1), body = L - hdr, nb = body / 16, nch = (body + S - 1) / S;
  switch (kind) {
  case M_BITFLIP: return L;
  case M_SETBYTE: return 10;
  case M_TRUNC: return L;
  case M_EXTEND: return 6;
  case M_DELBYTE: return L;
  case M_INSBYTE: return L + 1;
  case M_DELBLOCK: return L - 15;
  case M_INSBLOCK: return L + 1;
  case M_SWAPBLOCKS: return npairs(nb);
  case M_SWAPCHUNKS: return npairs(nch);
  case M_SWAPIVS: return npairs(b.T);
  case M_HDRxBIT: return thorough ? body : 0;
  case M_TAGZxBODY: return 2 * std::min(body, (size_t)(thorough ? 16 : 3)); // x 256 values of that body byte; even p: tag byte 0 := 0x00, odd p: whole tag := 0x00
  }
  return 0;
}
// apply modification; inner = inner index (bit / value); returns false when inner is out of range
static size_t inner_count(int kind) { return kind == M_BITFLIP ? 8 : kind == M_SETBYTE ? 256 : kind == M_HDRxBIT ? 16 * 8 : kind == M_TAGZxBODY ? 256 : 1; }
static Bytes apply_mod(const Bytes &F, const Base &b, int kind, size_t p, size_t inner, std::string &where) {
  Bytes M = F;
  size_t L = F.size(), hdr = 48 + 20 * (size_t)b.T;
  switch (kind) {
  case M_BITFLIP: M[p] ^= (unsigned char)(1u << inner); where = region(p, b, L); break;
  case M_SETBYTE: M[p] = (unsigned char)inner; where = region(p, b, L); break;
  case M_TRUNC: M.resize(p); where = "cut-in-" + region(p, b, L); break;
  case M_EXTEND: {
    size_t add = (p % 3 == 0) ? 1 : (p % 3 == 1) ? 16 : S;
    if (p < 3) M.insert(M.end(), add, 0);
    else for (size_t i = 0; i < add; i++) M.push_back(F[L - 16 + (i % 16)]);
    where = "end";
    break;
  }
  case M_DELBYTE: M.erase(M.begin() + p); where = region(p, b, L); break;
  case M_INSBYTE: M.insert(M.begin() + p, (unsigned char)0x00); where = region(p, b, L); break;
  case M_DELBLOCK: M.erase(M.begin() + p, M.begin() + p + 16); where = region(p, b, L); break;
  case M_INSBLOCK: { Bytes blk(F.end() - 16, F.end()); M.insert(M.begin() + p, blk.begin(), blk.end()); where = region(p, b, L); break; }
  case M_SWAPBLOCKS: { size_t x, y; pair_of(p, (L - hdr) / 16, x, y); for (int i = 0; i < 16; i++) std::swap(M[hdr + 16 * x + i], M[hdr + 16 * y + i]); where = "body"; break; }
  case M_SWAPCHUNKS: {
    size_t nch = (L - hdr + S - 1) / S, x, y;
    pair_of(p, nch, x, y);
    Bytes cx(F.begin() + hdr + x * S, F.begin() + std::min(L, hdr + (x + 1) * S)), cy(F.begin() + hdr + y * S, F.begin() + std::min(L, hdr + (y + 1) * S));
    M.resize(hdr + x * S);
    M.insert(M.end(), cy.begin(), cy.end());
    M.insert(M.end(), F.begin() + hdr + (x + 1) * S, F.begin() + hdr + y * S);
    M.insert(M.end(), cx.begin(), cx.end());
    if (hdr + (y + 1) * S < L) M.insert(M.end(), F.begin() + hdr + (y + 1) * S, F.end());
    where = "body";
    break;
  }
  case M_SWAPIVS: { size_t x, y; pair_of(p, b.T, x, y); for (int i = 0; i < 20; i++) std::swap(M[48 + 20 * x + i], M[48 + 20 * y + i]); where = "iv-fields"; break; }
  case M_TAGZxBODY: { // a tag comparison that stops at a NUL / checks a prefix / folds differences accepts a fixed fraction of these; a sound one none of them
    size_t hl = ref::hlen_of(b.hm), pos = L - 1 - (p / 2);
    if (p % 2) memset(M.data() + 10, 0, hl); else M[10] = 0;
    M[pos] = (unsigned char)inner;
    where = "tag+body";
    break;
  }
  case M_HDRxBIT: { // header byte 8 or 9 set to value (inner/8)%8, and one bit of body byte p flipped
    size_t hv = inner / 8, bit = inner % 8;
    M[hv < 8 ? 8 : 9] = (unsigned char)(hv % 8);
    M[hdr + p] ^= (unsigned char)(1u << bit);
    where = hv < 8 ? "cmode-byte+body" : "hmode-byte+body";
    break;
  }
  }
  return M;
}

// ---- lazy case tables ----------------------------------------------------------------------------------------------
struct Row { int base, kind; size_t first, count; };
static std::vector<Base> BASES;
static std::vector<Row> ROWS;
static size_t TOTAL = 0;
static bool THOROUGH = false;
static std::string MODE;
static long SEED = 0; // VERIF_SEED: only drives the labelled pseudo-random garbage supplement

// c11 shapes
enum { SH_TRUNC, SH_SHORT, SH_MAGICPREFIX, SH_MODEPAIR, SH_WRONGTAG, SH_GARBAGE, SH_RESIGNED, SH_FORGED, SH_NSHAPES };
static const char *SHN[] = {"truncated-valid", "short-file", "magic-prefix", "mode-byte-pair", "wrong-tag-body-length", "garbage(seeded sample)", "cut-and-resigned", "constant-tag-body-sweep"};
static std::vector<Base> c11_trunc_bases() { // "a valid file truncated anywhere": valid = made by the reference AND, independently, by wencry's own encrypt
  std::vector<Base> v;
  for (int self = 0; self < 2; self++)
    for (int T : {1, 2, 4}) for (size_t n : {(size_t)5, S, 2 * S + 3}) { Base b{1 + (T % 3), T % 3, T, n}; b.self = self != 0; v.push_back(b); }
  return v;
}
static std::vector<Base> c11_mode_bases() { std::vector<Base> v; for (int cm = 0; cm < 5; cm++) for (int hm = 0; hm < 3; hm++) v.push_back({cm, hm, 1 + (cm + hm) % 3, (cm * 3 + hm) % 2 ? (size_t)21 : S + 5}); return v; }
static std::vector<int> border_vals() { return {0, 1, 2, 3, 4, 5, 6, 127, 128, 254, 255}; }
static std::vector<size_t> wrongtag_bodies() { return {0, 1, 15, 16, S - 16, S, S + 16}; }
struct Shape { int shape; long a, b, c; };
static std::vector<Shape> C11;
static void build_c11() {
  C11.clear();
  auto tb = c11_trunc_bases();
  for (size_t bi = 0; bi < tb.size(); bi++) { size_t L = file_of(tb[bi]).size(); for (size_t m = 0; m < L; m++) C11.push_back({SH_TRUNC, (long)bi, (long)m, 0}); }
  for (int filler = 0; filler < 3; filler++) for (int len = 0; len <= 80; len++) C11.push_back({SH_SHORT, filler, len, 0});
  for (int k = 0; k <= 8; k++) for (int T : {1, 2}) C11.push_back({SH_MAGICPREFIX, k, T, 0});
  auto mb = c11_mode_bases();
  if (THOROUGH) { for (size_t bi = 0; bi < mb.size(); bi++) for (int x = 0; x < 256; x++) C11.push_back({SH_MODEPAIR, (long)bi, x, -1}); } // c=-1: loop all 256 hmode values inside
  else { auto bv = border_vals(); for (size_t bi = 0; bi < mb.size(); bi++) for (int x : bv) for (int y : bv) C11.push_back({SH_MODEPAIR, (long)bi, x, y}); }
  for (size_t body : wrongtag_bodies()) for (int T : {1, 2, 4}) for (int hm = 0; hm < 3; hm++) for (int righttag = 0; righttag < 1; righttag++) C11.push_back({SH_WRONGTAG, (long)body, T, hm});
  for (int len = 0; len <= 300; len++) C11.push_back({SH_GARBAGE, len, 0, 0});
  // well-formed header, a constant tag field (all 0x00 - what a half-written file holds - or all 0xFF) and every body of a counter family: a tag comparison that
  // stops early / folds the difference accepts a fixed fraction (typically 1/256) of them; a sound one none (chance 2^-128 each)
  for (int hm = 0; hm < 3; hm++) for (int pat = 0; pat < 2; pat++) for (int hi = 0; hi < (THOROUGH ? 64 : 8); hi++) C11.push_back({SH_FORGED, hm, pat, hi});
  if (MODE == "c12") { // C12 quantifies over ALL files: valid files cut to every length >= 48 and re-tagged with the key (never produced by encryption, but verify and decrypt must still agree on them)
    auto tb2 = c11_trunc_bases();
    for (size_t bi = 0; bi < tb2.size(); bi++) { size_t L = file_of(tb2[bi]).size(); for (size_t m = 48; m < L; m++) C11.push_back({SH_RESIGNED, (long)bi, (long)m, 0}); }
  }
}
static Bytes make_c11(const Shape &s, int inner, std::string &desc, int &T) {
  T = 4;
  switch (s.shape) {
  case SH_TRUNC: { Base b = c11_trunc_bases()[s.a]; T = b.T; Bytes F = file_of(b); F.resize(s.b); desc = "valid file (T=" + std::to_string(T) + ") cut to " + std::to_string(s.b) + " bytes"; return F; }
  case SH_SHORT: {
    Bytes F;
    T = 1 + (int)(s.b % 4);
    if (s.a == 2) { Base b{1, 0, T, 40}; F = file_of(b); F.resize(std::min((size_t)s.b, F.size())); F.resize(s.b, 0xA7); }
    else F.assign(s.b, s.a == 0 ? 0x00 : 0xff);
    desc = std::string(s.a == 0 ? "zeros" : s.a == 1 ? "0xFF" : "valid prefix then garbage") + " of length " + std::to_string(s.b);
    return F;
  }
  case SH_MAGICPREFIX: { Base b{2, 1, (int)s.b, 37}; T = b.T; Bytes F = file_of(b); for (int i = (int)s.a; i < 8; i++) F[i] ^= 0x5a; desc = "only the first " + std::to_string(s.a) + " magic bytes are right"; return F; }
  case SH_MODEPAIR: { Base b = c11_mode_bases()[s.a]; T = b.T; Bytes F = file_of(b); int y = s.c >= 0 ? (int)s.c : inner; F[8] = (unsigned char)s.b; F[9] = (unsigned char)y; desc = "valid file (cm=" + std::to_string(b.cm) + ",hm=" + std::to_string(b.hm) + ") with mode bytes set to " + std::to_string(s.b) + "," + std::to_string(y); return F; }
  case SH_WRONGTAG: {
    T = (int)s.b;
    Bytes F(ref::MAGIC, ref::MAGIC + 8);
    F.push_back(1); F.push_back((unsigned char)s.c);
    F.insert(F.end(), 38, 0);
    for (size_t i = 0; i < 20 * (size_t)T + (size_t)s.a; i++) F.push_back((unsigned char)(i * 11 + 3));
    for (int i = 10; i < 10 + ref::hlen_of((int)s.c); i++) F[i] = (unsigned char)(i * 5);
    desc = "right magic, wrong tag, body of " + std::to_string(s.a) + " bytes, T=" + std::to_string(T);
    return F;
  }
  case SH_RESIGNED: {
    Base b = c11_trunc_bases()[s.a]; T = b.T; Bytes F = file_of(b); F.resize(s.b);
    Bytes t = ref::hmac(b.hm, KEY, 16, F.data() + 48, F.size() - 48);
    memcpy(F.data() + 10, t.data(), t.size());
    desc = "valid file (T=" + std::to_string(T) + ") cut to " + std::to_string(s.b) + " bytes and re-tagged";
    return F;
  }
  case SH_FORGED: {
    T = 1 + (int)(s.c % 2);
    Bytes F(ref::MAGIC, ref::MAGIC + 8);
    F.push_back((unsigned char)(1 + s.c % 4)); F.push_back((unsigned char)s.a);
    F.insert(F.end(), 38, 0);
    for (int i = 10; i < 10 + ref::hlen_of((int)s.a); i++) F[i] = s.b ? 0xff : 0x00;
    unsigned k = (unsigned)s.c * 256 + (unsigned)inner;
    for (size_t i = 0; i < 20 * (size_t)T + 32; i++) F.push_back((unsigned char)(i * 7 + 1));
    F[F.size() - 1] = (unsigned char)k; F[F.size() - 2] = (unsigned char)(k >> 8); F[48] = (unsigned char)(k * 31 + 5);
    desc = "well-formed header, tag field all " + std::string(s.b ? "0xFF" : "0x00") + ", hm=" + std::to_string(s.a) + ", body variant " + std::to_string(k);
    return F;
  }
  case SH_GARBAGE: { Bytes F(s.a); uint32_t x = 12345 + (uint32_t)s.a * 977 + (uint32_t)s.c + (uint32_t)SEED * 2654435761u; for (auto &v : F) { x = x * 1664525u + 1013904223u; v = (unsigned char)(x >> 24); } if (s.a >= 8 && (s.a % 3 == 0)) memcpy(F.data(), ref::MAGIC, 8); T = 1 + (int)(s.a % 4); desc = "pseudo-random bytes, length " + std::to_string(s.a); return F; }
  }
  return {};
}

static void build_tables(const Args &a) {
  MODE = a.str("mode", "c05");
  SEED = a.num("seed", 0);
  THOROUGH = a.str("tier", "quick") == "thorough";
  BASES = bases(THOROUGH, MODE == "c12");
  { // the same files written by wencry's own encrypt ("files produced by encryption"): all of them for the key check, a third for the modification check
    std::vector<Base> selfmade;
    for (size_t i = 0; i < BASES.size(); i++)
      if (MODE == "c06" || (MODE == "c05" && i % 3 == 0)) { Base b = BASES[i]; b.self = true; selfmade.push_back(b); }
    if (MODE == "c06") { for (size_t i = 0; i < BASES.size(); i++) BASES[i].kk = (int)(i % 3); for (size_t i = 0; i < selfmade.size(); i++) selfmade[i].kk = (int)((i + 1) % 3); }
    BASES.insert(BASES.end(), selfmade.begin(), selfmade.end());
  }
  ROWS.clear();
  TOTAL = 0;
  if (MODE == "c05" || MODE == "c12") {
    for (size_t bi = 0; bi < BASES.size(); bi++)
      for (int k = 0; k < M_NKINDS; k++) {
        bool thor_pairs = THOROUGH && bi % 3 == 0; // header-value x body-bit pairs on every third base file
        size_t c = mod_count(BASES[bi], k, thor_pairs);
        if (MODE == "c12" && (k == M_HDRxBIT || k == M_TAGZxBODY)) c = 0;
        if (c) { ROWS.push_back({(int)bi, k, TOTAL, c}); TOTAL += c; }
      }
  }
  if (MODE == "c06" || MODE == "c12") {
    for (size_t bi = 0; bi < BASES.size(); bi++) { ROWS.push_back({(int)bi, 100, TOTAL, 132}); TOTAL += 132; }
  }
  if (MODE == "c11" || MODE == "c12") {
    build_c11();
    ROWS.push_back({-1, 200, TOTAL, C11.size()});
    TOTAL += C11.size();
  }
}
static Case get_case(size_t i) {
  for (const Row &r : ROWS)
    if (i >= r.first && i < r.first + r.count) {
      Case c;
      size_t p = i - r.first;
      if (r.kind < 100) {
        const Base &b = BASES[r.base];
        c.set("g", "mod").set("base", r.base).set("kind", r.kind).set("p", (long)p);
        c.cls = std::string(b.self ? "selfmade," : "") + "mod:" + std::string(MK[r.kind]) + ",cm=" + std::to_string(b.cm) + ",hm=" + std::to_string(b.hm) + ",T=" + std::to_string(b.T) + ",n=" + std::to_string(b.n);
      } else if (r.kind == 100) {
        c.set("g", "key").set("base", r.base).set("kidx", (long)p);
        c.cls = std::string(BASES[r.base].self ? "selfmade," : "") + "key:" + std::string(p < 128 ? "bit-neighbour" : "other") + ",base=" + std::to_string(r.base);
      } else {
        c.set("g", "shape").set("i", (long)p);
        const Shape &s = C11[p];
        c.cls = "shape:" + std::string(SHN[s.shape]) + (s.shape == SH_MODEPAIR ? ",base=" + std::to_string(s.a) : s.shape == SH_SHORT ? ",filler=" + std::to_string(s.a) : "");
      }
      return c;
    }
  return Case();
}
static void alt_key(size_t kidx, unsigned char *k, const unsigned char *KEY) {
  memcpy(k, KEY, 16);
  if (kidx < 128) k[kidx / 8] ^= (unsigned char)(1u << (kidx % 8));
  else if (kidx == 128) memset(k, 0, 16);
  else if (kidx == 129) memset(k, 0xff, 16);
  else if (kidx == 130) { for (int i = 0; i < 16; i++) k[i] = KEY[(i + 1) % 16]; }
  else { for (int i = 0; i < 16; i++) k[i] = KEY[15 - i]; }
}

// ---- oracles ---------------------------------------------------------------------------------------------------------
// c05: failure of both, or success of both with the original plaintext
static std::string oracle_c05(const Bytes &M, const Bytes &F, const Bytes &P, const Base &b, int kind, size_t p, size_t inner, const std::string &where) {
  if (M == F) return "=";
  fo::OpResult v, d;
  if ((p + inner) % 4 == 1) { // history: the genuine file has just been accepted, then the altered copy is decrypted straight away
    if ((p + inner) % 8 == 1) (void)fo::wc_verify(F, key_of(b.kk), b.T); else (void)fo::wc_decrypt(F, key_of(b.kk), b.T);
    if ((p + inner) % 16 >= 9) (void)fo::alter_in_place(F, M); // ... and it is the very same file (inode, size, times), altered in place
    d = fo::wc_decrypt(M, KEY, b.T);
    v = fo::wc_verify(M, KEY, b.T);
  } else { v = fo::wc_verify(M, KEY, b.T); d = fo::wc_decrypt(M, KEY, b.T); }
  std::string what = std::string(MK[kind]) + " at " + std::to_string(p) + (inner_count(kind) > 1 ? "/" + std::to_string(inner) : "") + " (" + where + ")";
  if (d.ret && d.out != P) {
    std::string key = "accepted-different-plaintext:" + where;
    if ((kind == M_BITFLIP || kind == M_SETBYTE) && p == 8 && M[8] <= 4) key = "hdr-byte-8:valid-cmode-substitution";
    return key + "|decrypt reports success after " + what + " but delivers " + std::to_string(d.out.size()) + " bytes that differ from the " + std::to_string(P.size()) + "-byte plaintext";
  }
  if (v.ret != d.ret) return "verify-decrypt-disagree:" + where + "|after " + what + " verify says " + (v.ret ? "ok" : "fail") + " and decrypt says " + (d.ret ? "ok" : "fail");
  if (!d.ret && !d.out.empty()) return "failed-decrypt-wrote-output:" + where + "|after " + what + " decrypt failed but wrote " + std::to_string(d.out.size()) + " bytes";
  return d.ret ? "+" : "";
}
static std::string run_mod(const Case &c) {
  const Base &b = BASES[c.num("base")];
  int kind = (int)c.num("kind");
  size_t p = (size_t)c.num("p");
  Bytes F = file_of(b), P = plain_of(b);
  size_t ni = inner_count(kind), n = 0, harmless = 0, same = 0;
  std::string firstv;
  for (size_t in = 0; in < ni; in++) {
    std::string where;
    Bytes M = apply_mod(F, b, kind, p, in, where);
    std::string r;
    if (MODE == "c05") r = oracle_c05(M, F, P, b, kind, p, in, where);
    else { // c12
      if (M == F && in > 0) { same++; continue; }
      fo::OpResult v = fo::wc_verify(M, KEY, b.T), d = fo::wc_decrypt(M, KEY, b.T);
      if (v.ret != d.ret) r = "verify-decrypt-disagree|" + std::string(MK[kind]) + " at " + std::to_string(p) + "/" + std::to_string(in) + ": verify " + (v.ret ? "ok" : "fail") + ", decrypt " + (d.ret ? "ok" : "fail");
      else if (!v.out.empty()) r = "verify-wrote-output|verify wrote " + std::to_string(v.out.size()) + " bytes";
      else if (!v.input_intact || !d.input_intact) r = "input-modified|an operation changed its input file";
    }
    if (r == "=") { same++; continue; }
    n++;
    if (r == "+") { harmless++; continue; }
    if (!r.empty() && firstv.empty()) firstv = r;
  }
  std::string pre = "#" + std::to_string(n) + "#";
  if (!firstv.empty()) return pre + firstv;
  return pre + (harmless ? "+harmless(" + std::to_string(harmless) + " of " + std::to_string(n) + " accepted with the original plaintext)" : "");
}
static std::string run_key(const Case &c) {
  const Base &b = BASES[c.num("base")];
  Bytes F = file_of(b);
  unsigned char k[16];
  alt_key((size_t)c.num("kidx"), k, key_of(b.kk));
  if (memcmp(k, key_of(b.kk), 16) == 0) return "";
  // the ordinary sequences of use: the same file (same inode) is first verified or decrypted with the right key, then someone tries
  // another key - verify first or decrypt first (a record of "the last file that passed" may be consumed by whichever comes next)
  int order = (int)(c.num("kidx") % 5);
  if (order == 1 || order == 2) (void)fo::wc_verify(F, key_of(b.kk), b.T);
  if (order == 3 || order == 4) (void)fo::wc_decrypt(F, key_of(b.kk), b.T);
  fo::OpResult v, d;
  if (order == 2 || order == 4) { d = fo::wc_decrypt(F, k, b.T); v = fo::wc_verify(F, k, b.T); }
  else { v = fo::wc_verify(F, k, b.T); d = fo::wc_decrypt(F, k, b.T); }
  if (MODE == "c12") {
    if (v.ret != d.ret) return "verify-decrypt-disagree|wrong key: verify " + std::string(v.ret ? "ok" : "fail") + ", decrypt " + (d.ret ? "ok" : "fail");
    if (!v.out.empty()) return "verify-wrote-output|verify wrote bytes";
    if (!v.input_intact || !d.input_intact) return "input-modified|an operation changed its input file";
    return "";
  }
  std::string which = "key " + hex(k, 16);
  if (v.ret) return "wrong-key-verifies|verification succeeds with " + which;
  if (d.ret) return "wrong-key-decrypts|decryption succeeds with " + which;
  if (!d.out.empty()) return "wrong-key-output|decryption with " + which + " failed but wrote " + std::to_string(d.out.size()) + " bytes";
  if (!v.out.empty()) return "wrong-key-output|verification wrote output";
  return "";
}
static std::string run_shape(const Case &c) {
  const Shape &s = C11[c.num("i")];
  int ni = ((s.shape == SH_MODEPAIR && s.c < 0) || s.shape == SH_FORGED) ? 256 : 1;
  std::string firstv;
  int accepted = 0;
  for (int in = 0; in < ni; in++) {
    std::string desc;
    int T;
    Bytes M = make_c11(s, in, desc, T);
    fo::OpResult v = fo::wc_verify(M, KEY, T), d = fo::wc_decrypt(M, KEY, T);
    std::string r;
    if (MODE == "c12") {
      if (v.ret != d.ret) r = "verify-decrypt-disagree|" + desc + ": verify " + (v.ret ? "ok" : "fail") + ", decrypt " + (d.ret ? "ok" : "fail");
      else if (!v.out.empty()) r = "verify-wrote-output|verify wrote bytes";
      else if (!v.input_intact || !d.input_intact) r = "input-modified|an operation changed its input file";
    } else {
      // authentic = the tag stored in the file is the HMAC of [48,EOF) under KEY (byte 8 is outside the tag)
      bool authentic = false;
      if (M.size() >= 48 && memcmp(M.data(), ref::MAGIC, 8) == 0 && M[9] <= 2) {
        Bytes t = ref::hmac(M[9], KEY, 16, M.data() + 48, M.size() - 48);
        authentic = memcmp(t.data(), M.data() + 10, t.size()) == 0;
      }
      size_t hdr = 48 + 20 * (size_t)T, body = M.size() > hdr ? M.size() - hdr : 0;
      if ((v.ret || d.ret) && !authentic) r = "accepted-unauthentic:" + std::string(SHN[s.shape]) + "|" + desc + ": " + (v.ret ? "verify" : "decrypt") + " reports success";
      else if (!d.ret && !d.out.empty()) r = "failed-decrypt-wrote-output:" + std::string(SHN[s.shape]) + "|" + desc + ": decrypt failed but wrote " + std::to_string(d.out.size()) + " bytes";
      else if (d.ret && d.out.size() > body) r = "output-longer-than-body:" + std::string(SHN[s.shape]) + "|" + desc + ": decrypt wrote " + std::to_string(d.out.size()) + " bytes, body has " + std::to_string(body);
      else if (!v.out.empty()) r = "verify-wrote-output|" + desc;
      if (d.ret) accepted++;
    }
    if (!r.empty() && firstv.empty()) firstv = r;
  }
  std::string pre = "#" + std::to_string(ni) + "#";
  if (!firstv.empty()) return pre + firstv;
  return pre + (accepted ? "+accepted-authentic(" + std::to_string(accepted) + ")" : "");
}
static std::string run_case(const Case &c) {
  std::string g = c.str("g");
  if (g == "mod") return run_mod(c);
  if (g == "key") return run_key(c);
  return run_shape(c);
}
static std::string death(const Case &c, const CaseResult &cr) {
  std::string how = cr.exitcode == 42 ? "deadlock" : cr.exitcode == 77 ? "memory-error(ASan)" : cr.timeout ? "hang" : cr.exitcode == 46 ? "livelock" : "crash";
  std::string ctx = c.str("g");
  if (ctx == "mod") { const Base &b = BASES[c.num("base")]; std::string w; size_t L = file_of(b).size(); int kind = (int)c.num("kind"); size_t p = (size_t)c.num("p"); ctx = std::string(MK[kind]) + ":" + ((kind == M_BITFLIP || kind == M_SETBYTE || kind == M_DELBYTE || kind == M_INSBYTE) ? region(p, b, L) : kind == M_TRUNC ? "cut-in-" + region(p, b, L) : "-"); }
  std::string extra;
  if (ctx == "shape") { const Shape &sh = C11[c.num("i")]; ctx = SHN[sh.shape]; int T; make_c11(sh, 0, extra, T); extra = " on: " + extra; }
  return "abnormal-end:" + how + ":" + ctx + "|verify/decrypt did not return normally (" + describe_death(cr) + ")" + extra;
}

int main(int argc, char **argv) {
  { std::string w; if (ref::selftest(w)) { fprintf(stderr, "reference self-test failed: %s\n", w.c_str()); return 9; } }
  Args a(argc, argv);
  build_tables(a);
  Spec sp;
  sp.harness = "ftamper";
  sp.lazy_count = [](const Args &) { return TOTAL; };
  sp.lazy_get = get_case;
  sp.run = run_case;
  sp.on_death = death;
  sp.alarm_s = 60;
  return main_loop(argc, argv, sp);
}
