// tsan_streams.cpp - auxiliary FREE-RUNNING ThreadSanitizer pass with the REAL cipher stream objects
// (AesFactory::createCryMaster, all five modes, both directions) driven by the real pipeline.
// The controlled scheduler cannot interleave inside runcry(); a data race between two workers inside
// the stream code (shared scratch, shared tables written at run time, ...) is visible to TSan only.
// usage: tsan_streams runs=<n>
#include "multicry.h"
#include "aesmode.h"
#include "vfc.hpp"
using namespace vfc;
static const u32_t S = iobuffer::sum;
static Bytes run(const Bytes &in, int T, bool enc, int cm, u8_t *key, const u8_t *iv) {
  int ifd = memfd_with(in), ofd = memfd_with({});
  FILE *fi = fopen_fd(ifd, "rb"), *fo = fopen_fd(ofd, "wb+");
  AesFactory f(key, iv);
  std::vector<Aesmode *> m;
  for (int i = 0; i < T; i++) m.push_back(f.createCryMaster(enc, (u8_t)cm));
  buffergroup::get_instance()->set_buffergroup(T, fi, fo, enc);
  multicry_master mm(T);
  mm.run_multicry(m.data(), [](std::string, size_t) {});
  buffergroup::del_instance();
  fclose(fo); fclose(fi);
  Bytes out = slurp_fd(ofd);
  close(ifd); close(ofd);
  for (auto p : m) delete p;
  return out;
}
int main(int argc, char **argv) {
  Args a(argc, argv);
  long runs = a.num("runs", 100), done = 0, bad = 0;
  u8_t key[16] = {0x2b, 0x7e, 0x15, 0x16, 0x28, 0xae, 0xd2, 0xa6, 0xab, 0xf7, 0x15, 0x88, 0x09, 0xcf, 0x4f, 0x3c};
  u8_t iv[16] = {0xf0, 0xf1, 0xf2, 0xf3, 0xf4, 0xf5, 0xf6, 0xf7, 0xf8, 0xf9, 0xfa, 0xfb, 0xfc, 0xfd, 0xfe, 0xff};
  for (long r = 0; r < runs; r++) {
    int T = 2 + (int)(r % 3), cm = (int)(r % 5);
    size_t len = (size_t)(T * 6 * S + (r * 37) % (2 * S)); // several chunks per worker so that workers overlap
    Bytes P(len);
    for (size_t i = 0; i < len; i++) P[i] = (u8_t)(i * 7 + r);
    Bytes C = run(P, T, true, cm, key, iv), D = run(C, T, false, cm, key, iv);
    done += 2;
    if (D != P) bad++;
  }
  J().s("t", "tsan").n("pipeline_runs", done).n("roundtrip_mismatches", bad).emit();
  return 0;
}
