// fextra.cpp
//   mode=c13  crash-point enumeration: execute_encrypt writes through a logging fopencookie stream; EVERY prefix of the
//             write history and EVERY byte prefix inside every write is materialised and given to verify and decrypt
//   mode=c18  per-stream IVs: IV fields distinct and seed dependent; streams do not share their start value
// usage: fextra mode=c13|c18 tier=quick|thorough [shard= nshards=] [single=<case>]
#ifndef _GNU_SOURCE
#define _GNU_SOURCE
#endif
#include "cases.hpp"
#include "fileops.hpp"

using namespace cs;
static const size_t S = fo::S;
static std::string MODE;
static bool THOROUGH = false;
static const unsigned char *KEY = fo::KEYS[0];

// ================================================================ C13
struct WriteRec { size_t off; Bytes data; };
struct Cookie { Bytes content; size_t pos = 0; std::vector<WriteRec> log; };
static ssize_t ck_read(void *c, char *buf, size_t n) { Cookie *k = (Cookie *)c; if (k->pos >= k->content.size()) return 0; size_t m = std::min(n, k->content.size() - k->pos); memcpy(buf, k->content.data() + k->pos, m); k->pos += m; return (ssize_t)m; }
static ssize_t ck_write(void *c, const char *buf, size_t n) {
  Cookie *k = (Cookie *)c;
  if (k->pos + n > k->content.size()) k->content.resize(k->pos + n, 0);
  memcpy(k->content.data() + k->pos, buf, n);
  k->log.push_back({k->pos, Bytes(buf, buf + n)});
  k->pos += n;
  return (ssize_t)n;
}
static int ck_seek(void *c, off64_t *off, int whence) { Cookie *k = (Cookie *)c; off64_t np = whence == SEEK_SET ? *off : whence == SEEK_CUR ? (off64_t)k->pos + *off : (off64_t)k->content.size() + *off; if (np < 0) return -1; k->pos = (size_t)np; *off = np; return 0; }
static int ck_close(void *) { return 0; }

static std::string c13_case(const Case &c) {
  int T = (int)c.num("T"), cm = (int)c.num("cm"), hm = (int)c.num("hm"), bufmode = (int)c.num("buf");
  size_t n = (size_t)c.num("n");
  Bytes P = fo::content(0, n);
  Cookie ck;
  cookie_io_functions_t io = {ck_read, ck_write, ck_seek, ck_close};
  FILE *out = fopencookie(&ck, "w+", io);
  static char sbuf[64];
  if (bufmode == 1) setvbuf(out, NULL, _IONBF, 0);
  else if (bufmode == 2) setvbuf(out, sbuf, _IOFBF, sizeof sbuf);
  int ifd = memfd_with(P);
  FILE *fi = fopen_fd(ifd, "rb");
  unsigned char key[16];
  memcpy(key, KEY, 16);
  Bytes seed = fo::cstr_seed("seed");
  bool ok;
  {
    Settings st((char)cm, (char)hm, true);
    runcrypt rc(fi, out, key, st, (u8_t)T);
    fo::canon_begin();
    ok = rc.execute_encrypt(P.size(), seed.data());
    fo::canon_end();
  }
  close(ifd);
  if (!ok) return "encrypt-failed|execute_encrypt returned false";
  Bytes final_file = ck.content;
  // the complete file must be accepted and must be the documented file
  {
    fo::OpResult v = fo::wc_verify(final_file, KEY, T), d = fo::wc_decrypt(final_file, KEY, T);
    if (!v.ret || !d.ret || d.out != P) return "complete-file-rejected|the completely written file does not verify/decrypt";
  }
  long evals = 0, states = 0;
  std::set<std::string> seen;
  std::string bad;
  Bytes cur; // file content after the writes applied so far
  auto check_state = [&](const Bytes &st, size_t wi, size_t k) {
    std::string key((const char *)st.data(), st.size());
    if (!seen.insert(key).second) return;
    states++;
    if (st == final_file) return;
    fo::OpResult v = fo::wc_verify(st, KEY, T), d = fo::wc_decrypt(st, KEY, T);
    evals++;
    if ((v.ret || d.ret) && bad.empty()) {
      size_t hdr = 48 + 20 * (size_t)T;
      std::string where = ck.log[wi].off < 10 ? "header-write" : ck.log[wi].off < 48 ? "tag-write" : ck.log[wi].off < hdr ? "iv-write" : "body-write";
      bad = "partial-file-accepted:" + where + "|a crash after " + std::to_string(k) + " of " + std::to_string(ck.log[wi].data.size()) + " bytes of write #" + std::to_string(wi) + " (offset " + std::to_string(ck.log[wi].off) + ") of " + std::to_string(ck.log.size()) + " leaves a " + std::to_string(st.size()) + "-byte file that " + (v.ret ? "verifies" : "decrypts") + " although it differs from the complete file";
    }
  };
  Bytes empty;
  seen.insert(std::string());
  states++;
  { fo::OpResult v = fo::wc_verify(empty, KEY, T); evals++; if (v.ret) bad = "partial-file-accepted:empty|the empty file verifies"; }
  for (size_t wi = 0; wi < ck.log.size(); wi++) {
    const WriteRec &w = ck.log[wi];
    for (size_t k = 1; k <= w.data.size(); k++) { // torn write: first k bytes reached the file
      Bytes st = cur;
      if (w.off + k > st.size()) st.resize(w.off + k, 0);
      memcpy(st.data() + w.off, w.data.data(), k);
      check_state(st, wi, k);
    }
    if (w.off + w.data.size() > cur.size()) cur.resize(w.off + w.data.size(), 0);
    memcpy(cur.data() + w.off, w.data.data(), w.data.size());
  }
  if (cur != final_file && bad.empty()) bad = "internal-log-mismatch|replaying the write log does not reproduce the file";
  return "#" + std::to_string(evals) + "#" + (bad.empty() ? "+states=" + std::to_string(states) + " writes=" + std::to_string(ck.log.size()) : bad);
}

// ================================================================ C18
static std::string c18_case(const Case &c) {
  int T = (int)c.num("T"), cm = (int)c.num("cm"), sd = (int)c.num("sd"), ck = (int)c.num("ct");
  size_t nchunks = 2 * (size_t)T + 1;
  size_t n = nchunks * S - 5; // last chunk takes the padding
  Bytes P(n);
  for (size_t i = 0; i < n; i++) P[i] = ck == 0 ? (unsigned char)((i % S) * 5 + 1) /* all chunks equal */ : (unsigned char)(i * 7 + (i / S) * 31 + 1) /* all chunks distinct */;
  std::string seed = fo::seed_of(sd), seed2 = fo::seed_of((sd + 1) % fo::NSEEDS);
  fo::OpResult e = fo::wc_encrypt(P, KEY, cm, 0, seed, T), e2 = fo::wc_encrypt(P, KEY, cm, 0, seed2, T);
  if (!e.ret || !e2.ret) return "encrypt-failed|execute_encrypt returned false";
  size_t hdr = 48 + 20 * (size_t)T;
  if (e.out.size() < hdr + n || e2.out.size() != e.out.size()) return "encrypt-failed|file too short";
  // (i) IV fields pairwise distinct within the file, and different for different seeds
  for (int i = 0; i < T; i++)
    for (int j = i + 1; j < T; j++)
      if (memcmp(&e.out[48 + 20 * i], &e.out[48 + 20 * j], 16) == 0) return "iv-fields-equal|IV fields " + std::to_string(i) + " and " + std::to_string(j) + " start with the same 16 bytes";
  for (int i = 0; i < T; i++)
    if (memcmp(&e.out[48 + 20 * i], &e2.out[48 + 20 * i], 20) == 0) return "iv-fields-seed-independent|IV field " + std::to_string(i) + " is the same for two different seeds";
  if (memcmp(&e.out[hdr], &e2.out[hdr], e.out.size() - hdr) == 0) return "ciphertext-seed-independent|two different seeds give the same ciphertext in a non-ECB mode";
  // (ii)/(iii) stream start values, observed on the ciphertext: chunk j (j < T) is the first chunk of stream j
  const unsigned char *C = &e.out[hdr];
  std::string shared;
  for (int i = 0; i < T && shared.empty(); i++)
    for (int j = i + 1; j < T && shared.empty(); j++) {
      bool reuse;
      if (ck == 0) reuse = memcmp(C + i * S, C + j * S, S) == 0; // equal plaintext chunks -> equal ciphertext chunks
      else if (cm == 1) reuse = false; // CBC with distinct plaintext: a shared IV is not visible in the ciphertext alone (covered by the equal-chunk cases)
      else { // CTR/OFB: C_i xor C_j == P_i xor P_j over the whole chunk (same keystream); CFB: over the first block (same E(IV))
        size_t len = (cm == 2 || cm == 4) ? S : 16;
        reuse = true;
        for (size_t k = 0; k < len; k++) if ((C[i * S + k] ^ C[j * S + k]) != (P[i * S + k] ^ P[j * S + k])) { reuse = false; break; }
      }
      if (reuse) shared = "streams " + std::to_string(i) + " and " + std::to_string(j);
    }
  if (!shared.empty()) {
    // name the cause: is the whole file what "every stream starts from IV[0]" predicts?
    Bytes R = ref::encrypt(P, KEY, cm, 0, fo::cstr_seed(seed), T, S);
    std::string key = (R == e.out) ? "stream-start-iv:shared-with-stream-0" : "stream-start-iv:shared-other";
    std::string sym = ck == 0 ? "equal plaintext chunks give equal ciphertext chunks" : (cm == 2 || cm == 4) ? "C_i xor C_j == P_i xor P_j (keystream used twice)" : "first blocks are chained from the same value";
    return key + "|" + shared + " start from the same IV: " + sym + " (T=" + std::to_string(T) + ", mode " + std::to_string(cm) + ")";
  }
  return "";
}

static void build(const Args &, std::vector<Case> &out) {
  if (MODE == "c13") {
    std::vector<size_t> sizes = {0, 5, 16, S - 1, S, 2 * S + 3};
    for (int cm = 0; cm < 5; cm++)
      for (int hm = 0; hm < 3; hm++)
        for (int T : {1, 2, 4})
          for (size_t si = 0; si < sizes.size(); si++)
            for (int buf = 0; buf < 3; buf++) {
              if (!THOROUGH && ((cm * 3 + hm + T + (int)si + buf) % 3 != 0)) continue; // quick: a third of the product, every value of every dimension still occurs with every other one
              Case c;
              c.set("T", T).set("cm", cm).set("hm", hm).set("n", (long)sizes[si]).set("buf", buf);
              c.cls = "cm=" + std::to_string(cm) + ",hm=" + std::to_string(hm) + ",T=" + std::to_string(T) + ",n=" + std::to_string(sizes[si]) + ",buf=" + std::to_string(buf);
              out.push_back(c);
            }
  } else {
    for (int T = 2; T <= 16; T++)
      for (int cm = 1; cm <= 4; cm++)
        for (int sd = 0; sd < fo::NSEEDS; sd++)
          for (int ct = 0; ct < 2; ct++) {
            if (!THOROUGH && T > 4 && ((T + cm + sd + ct) % 4)) continue;
            Case c;
            c.set("T", T).set("cm", cm).set("sd", sd).set("ct", ct);
            c.cls = "T=" + std::to_string(T) + ",cm=" + std::to_string(cm) + ",chunks=" + (ct ? "distinct" : "equal");
            out.push_back(c);
          }
  }
}

int main(int argc, char **argv) {
  { std::string w; if (ref::selftest(w)) { fprintf(stderr, "reference self-test failed: %s\n", w.c_str()); return 9; } }
  Args a(argc, argv);
  MODE = a.str("mode", "c13");
  THOROUGH = a.str("tier", "quick") == "thorough";
  Spec sp;
  sp.harness = "fextra";
  sp.build = build;
  sp.run = MODE == "c13" ? c13_case : c18_case;
  sp.on_death = [](const Case &, const CaseResult &cr) { return "abnormal-end:" + std::string(cr.exitcode == 42 ? "deadlock" : cr.exitcode == 77 ? "asan" : cr.timeout ? "hang" : "crash") + "|operation did not return normally: " + describe_death(cr); };
  sp.alarm_s = 120;
  return main_loop(argc, argv, sp);
}
