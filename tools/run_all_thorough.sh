#!/bin/bash
# Runs the thorough tier of the listed checks (default: all registered) one after the other on the current tree and prints one
# line each with wall time. Used to confirm that every thorough tier finishes (or stops at its deadline with exhaustive:false).
cd "$(dirname "$0")/.." || exit 2
[ -d build ] || ./check --setup >/dev/null 2>&1
L="$*"
[ -n "$L" ] || L=$(python3 -c "import json; print(' '.join(c['property_id'] for c in json.load(open('MANIFEST.json'))['checks']))")
rc=0
for p in $L; do
  s=$(date +%s)
  out=$(./check "$p" --tier thorough 2>&1); r=$?
  echo "$out" | grep -E "^(OK|FAIL|VIOLATION|KNOWN-FINDING|CANNOT-DECIDE|NOTE)" | cut -c1-200
  echo "== $p thorough rc=$r wall=$(( $(date +%s) - s ))s"
  [ $r -ne 0 ] && rc=1
done
exit $rc
