#!/bin/bash
# Runs the quick tier of every registered check on the current tree (sequentially, as `vp check` does) and prints one line each.
cd "$(dirname "$0")/.." || exit 2
rc=0
for p in $(python3 -c "import json; print(' '.join(c['property_id'] for c in json.load(open('MANIFEST.json'))['checks']))"); do
  out=$(./check "$p" --tier quick 2>&1); r=$?
  echo "$out" | grep -E "^(OK|FAIL|VIOLATION|KNOWN-FINDING|CANNOT-DECIDE|NOTE)" | cut -c1-160
  [ $r -ne 0 ] && rc=1
done
python3 tools/evidence_table.py >/dev/null
exit $rc
