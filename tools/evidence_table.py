#!/usr/bin/env python3
"""Writes a per-property summary of the evidence files (as last written by the checks) into DESIGN.md between the EVIDENCE markers."""
import json, os, glob
V = os.path.dirname(os.path.dirname(os.path.abspath(__file__)))
rows = ["| Property | tier | level | evaluations | distinct non-trivial | states / transitions | exhaustive | wall s |", "|---|---|---|---|---|---|---|---|"]
for p in sorted(glob.glob(os.path.join(V, "evidence", "C*.json"))):
    e = json.load(open(p)); c = e["coverage"]
    st = "%s / %s" % (c.get("states", "-"), c.get("transitions", "-")) if "states" in c else "-"
    rows.append("| %s | %s | %s | %s | %s | %s | %s | %s |" % (e["property_id"], e["tier"], e["level"], f'{c.get("evaluations",0):,}', f'{c.get("distinct_nontrivial",0):,}', st, c.get("exhaustive"), e["wall_s"]))
p = os.path.join(V, "DESIGN.md"); s = open(p).read()
a, b = s.index("<!-- EVIDENCE-BEGIN -->"), s.index("<!-- EVIDENCE-END -->")
open(p, "w").write(s[:a] + "<!-- EVIDENCE-BEGIN -->\n" + "\n".join(rows) + "\n" + s[b:])
print(len(rows) - 2, "rows")
