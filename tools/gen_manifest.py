#!/usr/bin/env python3
"""Regenerates /verif/MANIFEST.json from the table below (one place to keep it consistent)."""
import json
import os
import subprocess

HERE = os.path.dirname(os.path.dirname(os.path.abspath(__file__)))

MC = "model_checking"
FE = "fault_enumeration"
EX = "exploration"

# id: (ready, category, design_ref, technique, text, note)
P = {
    "C01": (True, EX, "4/C01", "exhaustive input/configuration grid (every length x T x mode) through the real encrypt+decrypt, canonical schedule under the controlled scheduler",
            "Every byte length 0..(T+2)*chunk+17 for every T=1..16, every cipher mode and hash mode, with chunk size overridden to 1-4 blocks, is encrypted and decrypted by the real code and compared with the plaintext. Exhaustive over the stated grid; data values from small alphabets.",
            "trusts: size overrides preserve the code's structure (the constants are only used as sizes); canonical schedule; ASan as memory oracle"),
    "C02": (True, EX, "4/C02", "exhaustive grid compared byte-for-byte with an independent executable specification (libcrypto)",
            "Same grid as C01; the produced file must equal the reference implementation of the documented format (EVP AES modes, SHA-1 IV chain, PKCS#7, round-robin striping, RFC 2104 tag), be deterministic, contain no plaintext block and leave the input intact.",
            "trusts OpenSSL libcrypto as reference (self-tested against FIPS/NIST/RFC vectors in every run)"),
    "C03": (True, MC, "4/C03", "stateless model checking of the implementation: preemption-bounded / delay-bounded DFS and sleep-set search over all interleavings under a controlled scheduler",
            "All interleavings of the real pipeline code (worker threads + I/O thread) up to the stated preemption bound, for T=1..4 and every chunk-count class, are executed; on each the output must equal the sequential reference and every stream must have processed exactly its own blocks once, in order.",
            "bounded: T<=4, <=5 chunks, chunk 1-3 blocks, preemption bound 2-3 (T<=2), delay bound 2 (T>=3), unbounded for the smallest configurations; sequential consistency between scheduling points"),
    "C04": (True, MC, "4/C04", "stateless model checking of the implementation (same explorer): deadlock = no enabled thread, livelock = step horizon, hang = alarm confirmed by isolated re-run",
            "On every explored interleaving run_multicry must return with all threads joined; a state with no enabled thread is reported as deadlock/lost wake-up with the blocked operations.",
            "as C03; condition-variable time-outs are not modelled; spurious wake-ups are injected in the thorough tier"),
    "C14": (True, MC, "4/C14", "stateless model checking of the implementation with a vector-clock happens-before monitor on every chunk-buffer access",
            "On every explored interleaving every pair of accesses to one chunk buffer (cursor fields, bytes) by the worker and the I/O thread must be ordered by happens-before; a worker access inside an I/O refill/flush window is reported as literal overlap; chunk->worker assignment and order are checked on the per-stream block log.",
            "accesses are seen through the guarded hooks in multi_buffergroup.cpp and through the harness's stream objects; a free-running ThreadSanitizer pass checks that the hook set is complete (thorough tier)"),
}
PENDING = {}


def main():
    checks = []
    for pid in sorted(P):
        ready, cat, ref, tech, text, note = P[pid]
        if not ready:
            PENDING[pid] = "check under construction in this round; not yet registered"
            continue
        checks.append({
            "property_id": pid,
            "quick_cmd": "./check %s --tier quick" % pid,
            "thorough_cmd": "./check %s --tier thorough" % pid,
            "evidence_file": "evidence/%s.json" % pid,
            "replay_cmd_template": "./check %s --replay {path}" % pid,
            "engine": "vsched+explore" if cat == MC else "cases",
            "level_claimed": {"category": cat, "text": text, "design_ref": "DESIGN.md section " + ref},
            "level_note": note,
            "technique": tech,
        })
    for i in range(1, 19):
        pid = "C%02d" % i
        if pid not in P:
            PENDING[pid] = "check under construction in this round; not yet registered"
    commits = subprocess.run(["git", "-C", "/repo", "log", "--format=%h %s"], stdout=subprocess.PIPE, text=True).stdout.splitlines()
    hooks = [l.split()[0] for l in commits if l.split(" ", 1)[1].startswith("verif hooks")]
    m = {
        "version": 1,
        "setup_cmd": "tools/setup.sh",
        "hooks": {
            "guard": "WENCRY_VERIF",
            "enable": "vf/common.py compiles /repo's sources itself with -DWENCRY_VERIF -DWENCRY_VERIF_BUF_SZ=<n> -DWENCRY_VERIF_HBUF_SZ=<n> (no cmake); harness defines wencry_verif_point()",
            "baseline_off_cmd": "tools/baseline_off.sh",
            "source_commits": hooks[::-1],
            "add_only": True,
        },
        "engines": [
            {"name": "vsched+explore", "path": "sched/", "serves_properties": ["C03", "C04", "C14"],
             "kind_free_text": "pthread-interposing serialising scheduler (futex hand-off, modelled mutex/condvar, vector clocks) + fork-per-execution DFS explorer (preemption/delay bounds, sleep sets)"},
            {"name": "cases", "path": "harness/cases.hpp", "serves_properties": sorted(k for k in P if P[k][1] != MC),
             "kind_free_text": "exhaustive enumeration of finite grids of inputs / modifications / crash points / histories, each case run in fork isolation against the real code and an executable specification"},
        ],
        "checks": checks,
        "not_applicable": [{"property_id": k, "reason": v} for k, v in sorted(PENDING.items())],
        "notes": "See DESIGN.md. Known findings in known-findings.txt; seeded changes used to demonstrate detection in seeded/.",
    }
    with open(os.path.join(HERE, "MANIFEST.json"), "w") as f:
        json.dump(m, f, indent=1)
    print("MANIFEST.json: %d checks, %d not_applicable" % (len(checks), len(PENDING)))


if __name__ == "__main__":
    main()
