#!/usr/bin/env python3
"""Regenerates /verif/MANIFEST.json from the table below (one place to keep it consistent)."""
import json
import os
import subprocess

HERE = os.path.dirname(os.path.dirname(os.path.abspath(__file__)))

MC = "model_checking"
FE = "fault_enumeration"
EX = "exploration"

# id: (ready, category, design_ref, technique, text, note)
P = {
    "C01": (True, EX, "4/C01", "exhaustive input/configuration grid (every length x T x mode) through the real encrypt+decrypt, canonical schedule under the controlled scheduler",
            "Every byte length 0..(T+2)*chunk+17 for every T=1..16, every cipher mode and hash mode, with chunk size overridden to 1-4 blocks, is encrypted and decrypted by the real code and compared with the plaintext. Exhaustive over the stated grid; data values from small alphabets.",
            "trusts: size overrides preserve the code's structure (the constants are only used as sizes); canonical schedule; ASan as memory oracle"),
    "C02": (True, EX, "4/C02", "exhaustive grid compared byte-for-byte with an independent executable specification (libcrypto)",
            "Same grid as C01 (plus seeds chosen for the structure of their SHA-1 chain and the size argument given exact / 0 / too large); the produced file must equal the reference implementation of the documented format (EVP AES modes, SHA-1 IV chain, PKCS#7, round-robin striping, RFC 2104 tag), be deterministic, contain no plaintext block and leave the input intact.",
            "trusts OpenSSL libcrypto as reference (self-tested against FIPS/NIST/RFC vectors in every run)"),
    "C03": (True, MC, "4/C03", "model checking of the implementation under a controlled scheduler: stateless preemption-/delay-bounded DFS, sleep-set search, and explicit-state search with state matching (no bound) whose abstraction is validated by a successor-determinism check",
            "All interleavings of the real pipeline code (worker threads + I/O thread) up to the stated preemption bound, for T=1..4 and every chunk-count class, are executed; on each the output must equal the sequential reference and every stream must have processed exactly its own blocks once, in order.",
            "bounded searches: T<=4, <=5 chunks, chunk 1-3 blocks, preemption bound 2-3 (T<=2), delay bound 2 (T>=3), sleep sets unbounded for T=1; state-matching searches (no bound) assume the hashed canonical state determines the future - validated per run, bounded searches do not depend on it; sequential consistency between scheduling points"),
    "C04": (True, MC, "4/C04", "stateless model checking of the implementation (same explorer): deadlock = no enabled thread, livelock = step horizon, hang = alarm confirmed by isolated re-run",
            "On every explored interleaving run_multicry must return with all threads joined; a state with no enabled thread is reported as deadlock/lost wake-up with the blocked operations.",
            "as C03; condition-variable time-outs are not modelled; spurious wake-ups are injected in the thorough tier"),
    "C14": (True, MC, "4/C14", "stateless model checking of the implementation with a vector-clock happens-before monitor on every chunk-buffer access",
            "On every explored interleaving every pair of accesses to one chunk buffer (cursor fields, bytes) by the worker and the I/O thread must be ordered by happens-before; a worker access inside an I/O refill/flush window is reported as literal overlap; chunk->worker assignment and order are checked on the per-stream block log.",
            "accesses are seen through the guarded hooks in multi_buffergroup.cpp and through the harness's stream objects; a free-running ThreadSanitizer pass checks that the hook set is complete (thorough tier)"),
    "C05": (True, FE, "4/C05", "exhaustive fault enumeration: every single modification of bounded reference-made files, real verify+decrypt per modified file",
            "For 30 (thorough: 270) encrypted files covering every cipher/hash mode, T in {1,2,4} and six sizes, every single-bit flip, every header byte value, every truncation, insertion, deletion, extension and block/chunk/IV swap is applied and the real verify and decrypt are run; accepted only if both fail or both succeed with the original plaintext.",
            "single modifications (plus header-byte x body-bit pairs in thorough); files made by the reference model; canonical schedule; ASan"),
    "C06": (True, FE, "4/C06", "exhaustive enumeration of all 128 single-bit key neighbours (+4 structured keys) per file",
            "Every single-bit neighbour of the key, plus all-zero, all-FF, rotated and reversed keys, against 30 (thorough 270) files: verify and decrypt must both fail and the output stream must stay empty.",
            "keys at Hamming distance 1 and four structured keys; other wrong keys are covered only through HMAC's correctness (C08)"),
    "C07": (True, EX, "4/C07", "exhaustive enumeration of message lengths across every block/padding/refill boundary, both entry points, three refill sizes, against libcrypto",
            "Every length 0..320 (string entry) and 0..3R+65 (file buffer, R=64/128/192 via the guarded override, with/without prefix block, 4 start offsets) for SHA-1, MD5, SHA-256; thorough adds four lengths around 2^29 bytes (bit counter crossing 2^32).",
            "contents from a 4-member alphabet (+0x80 at every position); libcrypto as oracle"),
    "C08": (True, EX, "4/C08", "exhaustive enumeration of message lengths x start positions x keys for HMAC, every single-bit tag deviation for the comparison, against OpenSSL HMAC",
            "gethmac over [pos,EOF) for every length 0..3R+65, 10 (thorough 81) start positions, 5 keys, 3 hash modes; cmphmac accepts the RFC 2104 tag and rejects each single-bit change; tag placement and zero fill checked on files written by the real encrypt for T in {1,2,3,4,5,16}.",
            "OpenSSL HMAC() as oracle; keys from a 5-member alphabet"),
    "C09": (True, EX, "4/C09", "exhaustive enumeration of all table entries and of all one-key-byte x one-block-byte deviations from base pairs, against libcrypto",
            "All four lookup tables are checked entry by entry against their mathematical definition; every (key, block) differing from a base pair in one key byte and one block byte (16.8M pairs per base) and all 128x128 single-bit pairs are encrypted/decrypted by the real code and compared with libcrypto; for every round 1..9, column and 881 column patterns the (key, block) whose round state has that column entering MixColumns / InvMixColumns is constructed and checked (data-dependent paths inside the round functions).",
            "bounded-alphabet claim: 2^256 inputs cannot be enumerated; multi-byte data interactions are covered only through the 4 bases"),
    "C10": (True, EX, "4/C10", "exhaustive enumeration of all block sequences up to length 4 over a 3-block alphabet x every counter-carry depth, plus 65,539-block streams, against EVP",
            "For each of the five modes: 3 keys x 20 IVs (last k bytes 0xFF, k=0..16, so the CTR carry passes through every depth) x all 121 block sequences of length 0..4, and long streams crossing one and two counter byte boundaries; encryptor, decryptor-as-inverse and decryptor compared with libcrypto EVP; one AesFactory object driven through all operation sequences up to length 4 over {loadiv(A), loadiv(B), create(enc/dec, m1), create(enc/dec, m2)} for all mode pairs.",
            "sequence alphabet of 3 blocks; keys/IVs from small alphabets"),
    "C11": (True, FE, "4/C11", "exhaustive enumeration of malformed-file shapes (every truncation, every short length, every mode-byte pair, ...) with the real verify+decrypt in forked ASan children",
            "Every truncation of 9 valid files, every length 0..80 of three fillers, every magic prefix, all mode-byte pairs (quick: 11x11 borders, thorough: all 65,536) on valid files of all 15 mode combinations, wrong-tag files with 7 body lengths; each must return normally with a failure, write nothing on failure and at most the body length on success. A pseudo-random garbage sample is added and labelled as sampling.",
            "ASan as memory oracle; validly tagged files not made by encryption are outside the domain"),
    "C12": (True, FE, "4/C12", "exhaustive enumeration over the union of the C05/C06/C11 corpora, differential oracle verify vs decrypt",
            "For every (file,key) of the modification, wrong-key and malformed corpora the real verify and decrypt are run on fresh copies: results must agree, verify must leave its output stream empty and the input bytes must be unchanged. The same three clauses are checked on the real binary (-v, -d -o, -d) for file classes named with and without .wenc.",
            "corpus bounded as in C05/C06/C11 (10 base files for the modification part)"),
    "C16": (True, EX, "4/C16", "exhaustive enumeration of all base64 groups (2^24 encodes, 64^4 decodes) and of all '=' placements / byte substitutions for the key validator, two-sided oracle with a don't-care class",
            "Encoder on all 2^24 three-byte groups and all tails; decoder on all four-symbol groups and padded tails; validator on all 2^24 '=' placements, every byte at every position, class pairs, all lengths 0..40; accepted strings are decoded into a 16-byte heap buffer under ASan; printed keys round-trip.",
            "RFC 4648 reference written in the harness (cross-checked with Python base64 in setup)"),
    "C13": (True, FE, "4/C13", "exhaustive crash-point enumeration: every prefix of the write history and every torn byte prefix inside every write, real verify+decrypt on each state",
            "execute_encrypt writes through a logging fopencookie stream (three stdio buffer modes); every crash state (write prefix x byte prefix of the torn write) is materialised and given to the real verify and decrypt; only states whose bytes equal the complete file may be accepted.",
            "process-death model: writes persist in issue order, last one torn at any byte; quick covers a third of the 5x3x3x6x3 grid, thorough all of it"),
    "C18": (True, EX, "4/C18", "exhaustive configuration grid (T=2..16 x modes x seeds x chunk patterns), behavioural oracle on ciphertext relations, violations keyed by cause",
            "For every T=2..16, non-ECB mode, five seeds and two chunk patterns the written file is inspected: IV fields distinct and seed dependent, and no two streams may start from the same value (equal chunks -> different ciphertext; CTR/OFB keystream not reused). The pinned format starts every stream from IV[0]: reported as the recorded known finding, any other cause is a violation.",
            "known finding stream-start-iv:shared-with-stream-0 (format-level, not repairable without changing what C02 fixes)"),
    "C15": (True, MC, "4/C15", "explicit-state enumeration of all operation histories up to depth 3/4 over a 25-operation alphabet, each history in a fresh process, differential oracle against the same operation alone; canonical process state recorded after every step",
            "All sequences of up to 3 (thorough 4) operations drawn from 16 library-level and 9 command-line operations (successful and failing ones, T=1/2/4/16, a second key, a file altered or repaired in place between operations, a file read with more workers than it was written with) run inside one process; each operation must observe exactly what it observes alone in a fresh process. The canonical process-wide state (live-buffer counter, singleton, thread count) after every step is recorded; one distinct state means every operation restores the initial state.",
            "depth bound; the hidden getopt cursor is not part of the canonical state, so for command-line histories the claim is the depth bound plus the differential oracle"),
    "C17": (True, EX, "4/C17 and 11.1", "exhaustive enumeration of option vectors (single deviations, all pairs; thorough: full product of value classes) against the real ASan-built binary, effect confirmed by the reference; plus exhaustive enumeration of write-failure points (every byte limit below the complete output size, /dev/full) of the same binary",
            "The real executable is run on every vector of the grid; no crash/sanitizer report may occur, exit status 0 must coincide with the effect being there (written file equals the documented format and decrypts to the input / plaintext restored / tag valid per the reference), and documented-invalid command lines must exit non-zero with a diagnostic.",
            "value classes per option (12x14x4x9x11x6x2x10); a non-zero exit must print a line no successful run prints (wording not prescribed; -n vectors are a don't-care); write failures modelled as RLIMIT_FSIZE/EFBIG and a device refusing writes; interactive mode excluded; production chunk size"),
}
PENDING = {}


def main():
    checks = []
    for pid in sorted(P):
        ready, cat, ref, tech, text, note = P[pid]
        if not ready:
            PENDING[pid] = "check under construction in this round; not yet registered"
            continue
        checks.append({
            "property_id": pid,
            "quick_cmd": "./check %s --tier quick" % pid,
            "thorough_cmd": "./check %s --tier thorough" % pid,
            "evidence_file": "evidence/%s.json" % pid,
            "replay_cmd_template": "./check %s --replay {path}" % pid,
            "engine": "vsched+explore" if cat == MC else "cases",
            "level_claimed": {"category": cat, "text": text, "design_ref": "DESIGN.md section " + ref},
            "level_note": note,
            "technique": tech,
        })
    for i in range(1, 19):
        pid = "C%02d" % i
        if pid not in P:
            PENDING[pid] = "check under construction in this round; not yet registered"
    commits = subprocess.run(["git", "-C", "/repo", "log", "--format=%h %s"], stdout=subprocess.PIPE, text=True).stdout.splitlines()
    hooks = [l.split()[0] for l in commits if l.split(" ", 1)[1].startswith("verif hooks")]
    m = {
        "version": 1,
        "setup_cmd": "tools/setup.sh",
        "hooks": {
            "guard": "WENCRY_VERIF",
            "enable": "vf/common.py compiles /repo's sources itself with -DWENCRY_VERIF -DWENCRY_VERIF_BUF_SZ=<n> -DWENCRY_VERIF_HBUF_SZ=<n> (no cmake); harness defines wencry_verif_point()",
            "baseline_off_cmd": "tools/baseline_off.sh",
            "source_commits": hooks[::-1],
            "add_only": True,
        },
        "engines": [
            {"name": "vsched+explore", "path": "sched/", "serves_properties": ["C03", "C04", "C14"],
             "kind_free_text": "pthread-interposing serialising scheduler (futex hand-off, modelled mutex/condvar, vector clocks) + fork-per-execution DFS explorer (preemption/delay bounds, sleep sets)"},
            {"name": "cases", "path": "harness/cases.hpp", "serves_properties": sorted(k for k in P if P[k][1] != MC),
             "kind_free_text": "exhaustive enumeration of finite grids of inputs / modifications / crash points / histories, each case run in fork isolation against the real code and an executable specification"},
        ],
        "checks": checks,
        "not_applicable": [{"property_id": k, "reason": v} for k, v in sorted(PENDING.items())],
        "notes": "See DESIGN.md. Known findings in known-findings.txt; seeded changes used to demonstrate detection in seeded/.",
    }
    with open(os.path.join(HERE, "MANIFEST.json"), "w") as f:
        json.dump(m, f, indent=1)
    print("MANIFEST.json: %d checks, %d not_applicable" % (len(checks), len(PENDING)))


if __name__ == "__main__":
    main()
