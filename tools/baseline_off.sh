#!/bin/bash
# Builds /repo WITHOUT the verification guard in a temporary directory, runs the repository's
# test suite the way BASELINE.json does (ctest -j8 --timeout 900) and checks that every test in
# BASELINE.json's stable_pass list passes. Removes the build directory afterwards.
# exit 0: all stable tests pass; 1: some stable test failed/missing; 2: build failed
set -u
REPO=${WENCRY_REPO:-/repo}
BASE=${BASELINE_JSON:-/root/.vp/BASELINE.json}
HERE=$(cd "$(dirname "$0")" && pwd)
[ -f "$BASE" ] || BASE="$HERE/BASELINE.stable.json"
B=$(mktemp -d /var/tmp/wencry-baseline.XXXXXX)
trap 'rm -rf "$B"' EXIT
if ! cmake -G Ninja -S "$REPO" -B "$B" -DCMAKE_BUILD_TYPE=RelWithDebInfo >"$B/configure.log" 2>&1; then tail -30 "$B/configure.log"; echo "BASELINE: configure failed"; exit 2; fi
if ! cmake --build "$B" -j16 >"$B/build.log" 2>&1; then tail -40 "$B/build.log"; echo "BASELINE: build failed"; exit 2; fi
ctest --test-dir "$B" -j8 --timeout ${BASELINE_TIMEOUT:-150} --output-junit "$B/junit.xml" >"$B/ctest.log" 2>&1
# gtest case level results: run every test binary again on its own, in the directory ctest used
# (Testspeed reads the test.txt that the file tests leave there)
mkdir -p "$B/gt"
for t in "$B"/test/Test*; do
  [ -x "$t" ] && [ -f "$t" ] || continue
  n=$(basename "$t")
  case "$n" in Testbig|Testsmall|Testsmode|Testshash) continue;; esac
  ( cd "$B/test" && timeout 300 "$t" --gtest_output=json:"$B/gt/$n.json" >/dev/null 2>&1 )
done
python3 - "$BASE" "$B" <<'EOF'
import json, sys, os, glob, xml.etree.ElementTree as ET
base, B = sys.argv[1], sys.argv[2]
stable = json.load(open(base))["stable_pass"]
ctest_ok = set()
try:
    for tc in ET.parse(os.path.join(B, "junit.xml")).getroot().iter("testcase"):
        if tc.get("status") == "run" and tc.find("failure") is None:
            ctest_ok.add(tc.get("name"))
except Exception as e:
    print("BASELINE: cannot read junit:", e)
gt_ok = set()
for p in glob.glob(os.path.join(B, "gt", "*.json")):
    try:
        j = json.load(open(p))
    except Exception:
        continue
    binname = os.path.basename(p)[:-5]
    for s in j.get("testsuites", []):
        for t in s.get("testsuite", []):
            if t.get("status") == "RUN" and not t.get("failures"):
                gt_ok.add(s["name"] + "::" + t["name"])
bad = []
for n in stable:
    suite, case = n.split("::")
    ok = (suite in ctest_ok) if suite == case else (n in gt_ok)
    if not ok:
        bad.append(n)
print("BASELINE: %d/%d stable tests pass (guard off)" % (len(stable) - len(bad), len(stable)))
for b in bad:
    print("BASELINE-FAIL:", b)
sys.exit(1 if bad else 0)
EOF
