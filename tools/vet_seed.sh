#!/bin/bash
# vet_seed.sh <worktree>: confirm a sub-agent's seeded change: patch == worktree diff, stable test suite passes with it
# (guard off), the demonstration fails with the patch and passes without it. Leaves the worktree patched.
WT=$1; shift
cd "$WT" || exit 2
git diff > /tmp/vet.$$.diff
if ! diff -q /tmp/vet.$$.diff MUTANT/patch.diff >/dev/null; then echo "VET: worktree diff != MUTANT/patch.diff"; fi
rm -f /tmp/vet.$$.diff
echo "== files touched:"; git diff --stat | tail -5
echo "== baseline with the patch:"; WENCRY_REPO=$WT /verif/tools/baseline_off.sh | tail -3
DEMO=${DEMO_CMD:-"sh MUTANT/demo.sh"}
echo "== demo WITH patch:"; ( timeout 900 $DEMO > /tmp/vet.$$.with 2>&1; echo "exit=$?" ) ; tail -3 /tmp/vet.$$.with
git apply -R MUTANT/patch.diff || { echo "VET: cannot reverse patch"; exit 2; }
echo "== demo WITHOUT patch:"; ( timeout 900 $DEMO > /tmp/vet.$$.without 2>&1; echo "exit=$?" ) ; tail -3 /tmp/vet.$$.without
git apply MUTANT/patch.diff
rm -f /tmp/vet.$$.with /tmp/vet.$$.without
