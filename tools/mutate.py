#!/usr/bin/env python3
"""Systematic mutation sweep: a blind-spot finder for the checks (not a check itself).

For every source line of abj1210/wencry that a simple operator applies to (relational/equality flips, && <-> ||, small integer
literals +-1, deletion of a simple statement, negated condition), the mutated tree is built in a scratch worktree and the quick
tier of the checks that cover that file is run against it (WENCRY_REPO=<scratch>). A mutant that no check reports SURVIVES;
survivors are listed for manual triage (equivalent mutant, or a blind spot to close).

usage: tools/mutate.py --wt /tmp/wt/mut [--files kernel/cry.cpp,...] [--every K] [--offset O] [--max N] [--out mutants.json]
Never touches /repo; creates/removes the scratch worktree itself."""
import argparse, json, os, re, subprocess, sys, time

V = os.path.dirname(os.path.dirname(os.path.abspath(__file__)))

CHECKS_FOR = [
    ("kernel/multi_aes/multi_buffergroup", ["C01", "C04", "C15"]),   # C04 runs the same exploration as C03/C14 and names their violations in NOTE lines
    ("kernel/multi_aes/multicry", ["C01", "C04", "C15"]),
    ("kernel/multi_aes/aes/aesmode", ["C10", "C02"]),
    ("kernel/multi_aes/aes/aes.", ["C09", "C10"]),
    ("kernel/cry.", ["C01", "C02", "C05", "C11", "C12", "C13", "C15", "C06", "C17"]),
    ("kernel/fheader", ["C02", "C08", "C05", "C11", "C13", "C18", "C06"]),
    ("kernel/hash/", ["C07", "C08"]),
    ("valget/base64/", ["C16"]),
    ("valget/", ["C17", "C15", "C16"]),
    ("main.cpp", ["C17"]),
]


def checks_for(path):
    for pre, cs in CHECKS_FOR:
        if path.startswith(pre):
            return cs
    return []


def sh(*a, **k):
    return subprocess.run(a, stdout=subprocess.PIPE, stderr=subprocess.STDOUT, text=True, errors="replace", **k)


def code_part(line):
    """the part of the line before a // comment (string literals are left alone: lines with quotes are skipped for most operators)"""
    i = line.find("//")
    return line if i < 0 else line[:i]


def candidates(path, lines):
    out = []
    in_block_comment = False
    in_guard = 0
    for n, raw in enumerate(lines):
        line = raw.rstrip("\n")
        st = line.strip()
        if in_block_comment:
            if "*/" in st:
                in_block_comment = False
            continue
        if st.startswith("/*"):
            if "*/" not in st:
                in_block_comment = True
            continue
        if st.startswith("#ifdef WENCRY_VERIF") or st.startswith("#if defined(WENCRY_VERIF"):
            in_guard += 1
            continue
        if in_guard and st.startswith("#endif"):
            in_guard -= 1
            continue
        if in_guard or st.startswith("#") or st.startswith("//") or not st or "WENCRY_VERIF" in st:
            continue
        code = code_part(line)
        has_str = '"' in code or "'" in code

        def add(kind, new):
            if new != line:
                out.append((n, kind, new + "\n"))
        if not has_str:
            # relational flips (avoid <<, >>, ->, templates/includes)
            for m in re.finditer(r"(?<![<>\-=!])(<=|>=|<|>)(?![<>=])", code):
                op = m.group(1)
                if op in ("<", ">") and re.search(r"(template|include|std::|static_cast|reinterpret_cast|function<|vector<|unique_ptr<|lock_guard<|unique_lock<)", code):
                    continue
                new = {"<": "<=", "<=": "<", ">": ">=", ">=": ">"}[op]
                add("rel:%s->%s" % (op, new), code[:m.start(1)] + new + code[m.end(1):] + line[len(code):])
            for m in re.finditer(r"(==|!=)", code):
                new = "!=" if m.group(1) == "==" else "=="
                add("eq:%s->%s" % (m.group(1), new), code[:m.start(1)] + new + code[m.end(1):] + line[len(code):])
            for m in re.finditer(r"(&&|\|\|)", code):
                new = "||" if m.group(1) == "&&" else "&&"
                add("logic:%s->%s" % (m.group(1), new), code[:m.start(1)] + new + code[m.end(1):] + line[len(code):])
            # small integer literals +-1 (decimal 0..64 and 0x.. up to 0xff); not in array-size declarations of tables
            for m in re.finditer(r"(?<![\w.])(0x[0-9a-fA-F]{1,2}|\d{1,2})(?![\w.])", code):
                v = int(m.group(1), 0)
                for d in (1, -1):
                    if v + d < 0:
                        continue
                    rep = ("0x%x" % (v + d)) if m.group(1).startswith("0x") else str(v + d)
                    add("const:%s->%s" % (m.group(1), rep), code[:m.start(1)] + rep + code[m.end(1):] + line[len(code):])
            # negate an if/while condition
            m = re.match(r"^(\s*)(if|while)\s*\((.*)\)\s*$", code.rstrip())
            if m and m.group(2) == "if":
                add("negate-if", "%sif (!(%s))" % (m.group(1), m.group(3)) + line[len(code.rstrip()):])
        # statement deletion: a single call / assignment / inc-dec statement on its own line
        if re.match(r"^\s*[\w\[\]\.\->:\*\(\)&]+(\s*(=|\+=|-=|\^=|\|=|&=)\s*[^;]+|\+\+|--|\s*\([^;]*\))\s*;\s*$", code.rstrip()) and not re.match(r"^\s*(return|delete|break|continue|else|case|default)\b", st):
            if not re.match(r"^\s*(u8_t|u32_t|u64_t|int|bool|char|size_t|auto|const|static|FILE|std::|unsigned|long|loadstate_t|Hashmaster|Aesmode)\b", st):
                out.append((n, "delete-stmt", re.match(r"^\s*", line).group(0) + ";\n"))
    return out


def main():
    ap = argparse.ArgumentParser()
    ap.add_argument("--wt", required=True)
    ap.add_argument("--files", default="kernel/multi_aes/multi_buffergroup.cpp,kernel/multi_aes/multicry.cpp,kernel/cry.cpp,kernel/fheader.cpp,kernel/hash/hashbuffer.cpp,kernel/hash/hashmaster.cpp,"
                                        "kernel/hash/sha1.cpp,kernel/hash/md5.cpp,kernel/hash/sha256.cpp,kernel/multi_aes/aes/aesmode.cpp,kernel/multi_aes/aes/aes.cpp,valget/base64/base64.cpp,valget/getopts.cpp,main.cpp")
    ap.add_argument("--every", type=int, default=1)
    ap.add_argument("--offset", type=int, default=0)
    ap.add_argument("--max", type=int, default=100000)
    ap.add_argument("--out", default=os.path.join(V, "seeded", "MUTATION-SWEEP.json"))
    ap.add_argument("--repo", default="/repo")
    ap.add_argument("--list", action="store_true")
    ap.add_argument("--clean-build", action="store_true", help="remove the build directories each mutant created (use a private copy of /verif per sweep process)")
    a = ap.parse_args()
    if not os.path.isdir(a.wt):
        r = sh("git", "-C", a.repo, "worktree", "add", "-q", "--detach", a.wt, "HEAD")
        if r.returncode:
            print(r.stdout); sys.exit(2)
    res = json.load(open(a.out)) if os.path.exists(a.out) else {}
    todo = []
    for f in a.files.split(","):
        lines = open(os.path.join(a.wt, f)).read().splitlines(True)
        for (n, kind, new) in candidates(f, lines):
            todo.append((f, n, kind, new))
    todo = [t for i, t in enumerate(todo) if i % a.every == a.offset][:a.max]
    print("%d mutants selected" % len(todo), flush=True)
    if a.list:
        for f, n, kind, new in todo:
            print("%s:%d %s | %s" % (f, n + 1, kind, new.strip()))
        return
    env = dict(os.environ)
    env["WENCRY_REPO"] = a.wt
    for (f, n, kind, new) in todo:
        key = "%s:%d:%s" % (f, n + 1, kind)
        if key in res:
            continue
        p = os.path.join(a.wt, f)
        orig = open(p).read().splitlines(True)
        mut = list(orig)
        mut[n] = new
        open(p, "w").write("".join(mut))
        t0 = time.time()
        before = {k: set(os.listdir(os.path.join(V, "build", k))) if os.path.isdir(os.path.join(V, "build", k)) else set() for k in ("obj", "hobj", "exe")}
        entry = {"file": f, "line": n + 1, "kind": kind, "original": orig[n].strip(), "mutated": new.strip(), "checks": {}}
        try:
            verdict = "survived"
            for pid in checks_for(f):
                r = sh(os.path.join(V, "check"), pid, "--tier", "quick", cwd=V, env=env)
                viol = "VIOLATION property=" in r.stdout
                others = [l for l in r.stdout.splitlines() if l.startswith("NOTE: this exploration also saw a violation")]
                cd = "CANNOT-DECIDE" in r.stdout
                keys = [l.split("key=")[1].split()[0] for l in r.stdout.splitlines() if l.strip().startswith("key=")][:2]
                entry["checks"][pid] = {"rc": r.returncode, "violation": viol, "other_props": len(others), "cannot_decide": cd, "keys": keys}
                if cd and "build step failed" in r.stdout:
                    verdict = "does-not-compile"
                    break
                if viol or others:
                    verdict = "killed:" + pid
                    break
            entry["verdict"] = verdict
        finally:
            open(p, "w").write("".join(orig))
            if a.clean_build:
                import shutil
                for k, old in before.items():
                    d = os.path.join(V, "build", k)
                    for x in (set(os.listdir(d)) - old if os.path.isdir(d) else ()):
                        shutil.rmtree(os.path.join(d, x), ignore_errors=True)
        entry["wall_s"] = round(time.time() - t0, 1)
        res[key] = entry
        print("%-60s %-18s %s   | %s" % (key, entry["verdict"], entry["wall_s"], new.strip()[:70]), flush=True)
        json.dump(res, open(a.out, "w"), indent=1, sort_keys=True)
    surv = [k for k, v in res.items() if v.get("verdict") == "survived"]
    print("done: %d mutants, %d survived" % (len(res), len(surv)))
    for k in surv:
        print("SURVIVED", k, "|", res[k]["original"], "=>", res[k]["mutated"])


if __name__ == "__main__":
    main()
