#!/bin/bash
# Offline setup: pre-builds the harness executables for the quick tier from /repo's current tree
# (they are rebuilt automatically whenever /repo or /verif sources change) and runs the self-tests
# of the scheduler and of the reference model.
cd "$(dirname "$0")/.." || exit 2
mkdir -p build evidence replays
exec ./check --setup
