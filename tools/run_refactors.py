#!/usr/bin/env python3
"""False-alarm experiment: applies every behaviour-preserving refactoring in refactors/<name>/patch.diff to /repo in turn, runs the
quick tier of ALL registered checks, records which (if any) raise a VIOLATION or cannot decide, and restores /repo.
usage: tools/run_refactors.py [name ...]   (refuses to start if /repo is dirty)"""
import json, os, subprocess, sys, time
V = os.path.dirname(os.path.dirname(os.path.abspath(__file__)))
def sh(*a, **k): return subprocess.run(a, stdout=subprocess.PIPE, stderr=subprocess.STDOUT, text=True, **k)
if sh("git", "-C", "/repo", "status", "--porcelain").stdout.strip():
    print("refusing: /repo has uncommitted changes"); sys.exit(2)
checks = [c["property_id"] for c in json.load(open(os.path.join(V, "MANIFEST.json")))["checks"]]
names = sys.argv[1:] or sorted(d for d in os.listdir(os.path.join(V, "refactors")) if os.path.isdir(os.path.join(V, "refactors", d)))
rp = os.path.join(V, "refactors", "RESULTS.json")
results = json.load(open(rp)) if os.path.exists(rp) else {}
for n in names:
    d = os.path.join(V, "refactors", n)
    r = sh("git", "-C", "/repo", "apply", os.path.join(d, "patch.diff"))
    if r.returncode: print(n, "patch does not apply:", r.stdout[:300]); results[n] = "patch-does-not-apply"; continue
    try:
        res = {}
        for pid in checks:
            t = time.time()
            p = sh(os.path.join(V, "check"), pid, "--tier", "quick", cwd=V)
            viol = [l.strip()[:200] for l in p.stdout.splitlines() if l.strip().startswith("key=")]
            cd = [l[:200] for l in p.stdout.splitlines() if l.startswith("CANNOT-DECIDE")]
            res[pid] = {"rc": p.returncode, "violations": viol[:4], "cannot_decide": cd[:1], "wall_s": round(time.time() - t, 1)}
            print("%-28s %s rc=%d %s" % (n, pid, p.returncode, "silent" if p.returncode == 0 else ("CANNOT-DECIDE " + cd[0][:120] if cd else "ALARM " + "; ".join(viol[:2]))), flush=True)
        results[n] = res
    finally:
        sh("git", "-C", "/repo", "checkout", "--", ".")
        sh("git", "-C", "/repo", "clean", "-fdq")
    json.dump(results, open(rp, "w"), indent=1, sort_keys=True)
