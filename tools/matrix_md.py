#!/usr/bin/env python3
"""Writes the detection matrix from seeded/RESULTS.json into DESIGN.md between the MATRIX markers."""
import json, os
V = os.path.dirname(os.path.dirname(os.path.abspath(__file__)))
r = json.load(open(os.path.join(V, "seeded", "RESULTS.json")))
rows = ["| Seeded change | breaks | needs | detected by (quick tier; first key) | not reported by |", "|---|---|---|---|---|"]
for name in sorted(r, key=lambda n: (not n.startswith("pinned"), n)):
    res = r[name]
    mp = os.path.join(V, "seeded", name, "meta.json")
    meta = json.load(open(mp)) if os.path.exists(mp) else {}
    if not isinstance(res, dict):
        rows.append("| `%s` | %s | | %s | |" % (name, ",".join(meta.get("breaks", [])), res)); continue
    det = ["%s (`%s`)" % (p, v["keys"][0] if v["keys"] else "?") for p, v in sorted(res.items()) if v["violation"]]
    mis = [p for p, v in sorted(res.items()) if not v["violation"]]
    rows.append("| `%s` | %s | %s | %s | %s |" % (name, ",".join(meta.get("breaks", [])), meta.get("needs_to_manifest", "")[:140], "; ".join(det), ", ".join(mis)))
p = os.path.join(V, "DESIGN.md")
s = open(p).read()
a, b = s.index("<!-- MATRIX-BEGIN -->"), s.index("<!-- MATRIX-END -->")
s = s[:a] + "<!-- MATRIX-BEGIN -->\n" + "\n".join(rows) + "\n" + s[b:]
open(p, "w").write(s)
print(len(rows) - 2, "rows")
