// reftool - command-line face of the reference model (ref/ref.hpp), used by the C17 check.
//   reftool encrypt <plain> <out> <keyhex> <cmode> <hmode> <seed> <T> <S>
//   reftool check-enc <plain> <enc> <keyhex> <T> <S>   exit 0 iff enc is the documented encryption of plain under key with the IVs found in enc
//   reftool verify <enc> <keyhex>                       exit 0 iff magic/modes/tag are right
//   reftool decrypt <enc> <keyhex> <T> <S> <out>        exit 0 iff authentic; writes the plaintext
#include "ref.hpp"
#include <cstdio>
#include <cstdlib>
using ref::Bytes;
static Bytes slurp(const char *p, bool &ok) { Bytes b; FILE *f = fopen(p, "rb"); ok = f != nullptr; if (!f) return b; unsigned char buf[65536]; size_t k; while ((k = fread(buf, 1, sizeof buf, f)) > 0) b.insert(b.end(), buf, buf + k); fclose(f); return b; }
int main(int argc, char **argv) {
  std::string why;
  if (ref::selftest(why)) { fprintf(stderr, "reference self-test failed: %s\n", why.c_str()); return 9; }
  if (argc < 2) return 2;
  std::string cmd = argv[1];
  bool ok;
  if (cmd == "selftest") { puts("reference self-test ok"); return 0; }
  if (cmd == "encrypt" && argc == 10) {
    Bytes P = slurp(argv[2], ok); if (!ok) return 3;
    Bytes key = ref::unhex(argv[4]);
    Bytes seed(argv[7], argv[7] + strlen(argv[7])); seed.push_back(0);
    Bytes F = ref::encrypt(P, key.data(), atoi(argv[5]), atoi(argv[6]), seed, atoi(argv[8]), (size_t)atol(argv[9]));
    FILE *f = fopen(argv[3], "wb"); if (!f) return 3; fwrite(F.data(), 1, F.size(), f); fclose(f); return 0;
  }
  if (cmd == "check-enc" && argc == 7) {
    Bytes P = slurp(argv[2], ok); if (!ok) return 3;
    Bytes E = slurp(argv[3], ok); if (!ok) return 4;
    Bytes key = ref::unhex(argv[4]);
    int T = atoi(argv[5]);
    if (E.size() < 48 + 20 * (size_t)T || E[8] > 4 || E[9] > 2) { puts("BAD header"); return 1; }
    Bytes ivs(E.begin() + 48, E.begin() + 48 + 20 * T);
    Bytes R = ref::encrypt_with_ivs(P, key.data(), E[8], E[9], ivs, T, (size_t)atol(argv[6]));
    if (R != E) { puts("BAD differs from the documented format"); return 1; }
    printf("OK cmode=%d hmode=%d\n", E[8], E[9]);
    return 0;
  }
  if (cmd == "verify" && argc == 4) {
    Bytes E = slurp(argv[2], ok); if (!ok) return 3;
    Bytes key = ref::unhex(argv[3]);
    int c = ref::verify(E, key.data());
    printf("%d\n", c);
    return c == 0 ? 0 : 1;
  }
  if (cmd == "decrypt" && argc == 7) {
    Bytes E = slurp(argv[2], ok); if (!ok) return 3;
    Bytes key = ref::unhex(argv[3]);
    ref::Dec d = ref::decrypt(E, key.data(), atoi(argv[4]), (size_t)atol(argv[5]));
    if (d.code) { printf("%d\n", d.code); return 1; }
    FILE *f = fopen(argv[6], "wb"); if (!f) return 3; if (d.plain.size()) fwrite(d.plain.data(), 1, d.plain.size(), f); fclose(f); return 0;
  }
  return 2;
}
