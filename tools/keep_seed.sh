#!/bin/bash
# keep_seed.sh <worktree> <name> <breaks,comma> <expected,comma> <needs...>: vets a sub-agent's change (tools/vet_seed.sh) and, when the
# vetting output shows 36/36, demo failing with and passing without the patch, stores it as seeded/<name>/ with a meta.json.
WT=$1; NAME=$2; BREAKS=$3; EXPECT=$4; shift 4; NEEDS="$*"
V=$(cd "$(dirname "$0")/.." && pwd)
LOG=$(mktemp)
"$V/tools/vet_seed.sh" "$WT" > "$LOG" 2>&1
cat "$LOG"
ok=1
grep -q "BASELINE: 36/36" "$LOG" || ok=0
grep -q "worktree diff != MUTANT/patch.diff" "$LOG" && ok=0
w=$(grep -A1 "== demo WITH patch" "$LOG" | grep -o "exit=[0-9]*" | head -1); wo=$(grep -A1 "== demo WITHOUT patch" "$LOG" | grep -o "exit=[0-9]*" | head -1)
[ "$w" != "exit=0" ] && [ -n "$w" ] || ok=0
[ "$wo" = "exit=0" ] || ok=0
rm -f "$LOG"
if [ $ok = 0 ]; then echo "KEEP: NOT kept ($NAME): vetting failed (with=$w without=$wo)"; exit 1; fi
D="$V/seeded/$NAME"; mkdir -p "$D"
cp -r "$WT"/MUTANT/* "$D"/
find "$D" -type f -size +300k -delete
python3 - "$D" "$BREAKS" "$EXPECT" "$NEEDS" <<PY
import json, sys
d, breaks, expect, needs = sys.argv[1:5]
json.dump({"breaks": breaks.split(","), "origin": "independent sub-agent given only the property text and a scratch worktree (batch ${BATCH:-5})",
           "needs_to_manifest": needs,
           "vetted": "tools/vet_seed.sh: worktree diff == patch.diff; stable suite 36/36 with the patch (guard off); demo fails with the patch and passes without it",
           "expected_detection": expect.split(",")}, open(d + "/meta.json", "w"), indent=1)
PY
echo "KEEP: kept as seeded/$NAME"
