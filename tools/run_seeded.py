#!/usr/bin/env python3
"""Applies every seeded change in seeded/<name>/patch.diff to /repo in turn, runs the checks named in its
meta.json (expected_detection) at the quick tier, records which of them report a violation, and restores /repo.
usage: tools/run_seeded.py [name ...]   (never leaves /repo modified; refuses to start if /repo is dirty)"""
import json, os, subprocess, sys, time
V = os.path.dirname(os.path.dirname(os.path.abspath(__file__)))
def sh(*a, **k): return subprocess.run(a, stdout=subprocess.PIPE, stderr=subprocess.STDOUT, text=True, **k)
if sh("git", "-C", "/repo", "status", "--porcelain").stdout.strip():
    print("refusing: /repo has uncommitted changes"); sys.exit(2)
names = sys.argv[1:] or sorted(os.listdir(os.path.join(V, "seeded")))
rp = os.path.join(V, "seeded", "RESULTS.json")
results = json.load(open(rp)) if os.path.exists(rp) else {}
for n in names:
    d = os.path.join(V, "seeded", n)
    if not os.path.exists(os.path.join(d, "patch.diff")): continue
    meta = json.load(open(os.path.join(d, "meta.json")))
    r = sh("git", "-C", "/repo", "apply", os.path.join(d, "patch.diff"))
    if r.returncode: print(n, "patch does not apply:", r.stdout[:300]); results[n] = "patch-does-not-apply"; continue
    try:
        res = {}
        for pid in meta.get("expected_detection", meta.get("breaks", [])):
            t = time.time()
            p = sh(os.path.join(V, "check"), pid, "--tier", "quick", cwd=V)
            keys = [l.split("key=")[1].split()[0] for l in p.stdout.splitlines() if l.strip().startswith("key=")]
            res[pid] = {"rc": p.returncode, "violation": "VIOLATION property=%s" % pid in p.stdout, "keys": keys[:6], "wall_s": round(time.time() - t, 1)}
            print("%-14s %s rc=%d %s %s" % (n, pid, p.returncode, "DETECTED" if res[pid]["violation"] else "missed", keys[:3]), flush=True)
        results[n] = res
    finally:
        sh("git", "-C", "/repo", "checkout", "--", ".")
        sh("git", "-C", "/repo", "clean", "-fdq")
json.dump(results, open(os.path.join(V, "seeded", "RESULTS.json"), "w"), indent=1, sort_keys=True)
