#!/usr/bin/env python3
"""Parallel version of tools/run_seeded.py and tools/run_refactors.py.

Each worker owns a scratch git worktree of /repo (outside /repo and /verif) and a private copy of /verif (own build cache, own
evidence directory), applies one patch at a time to ITS worktree and runs the quick tier of the checks against it through
WENCRY_REPO. /repo itself is never touched, so several changes are examined at once and the evidence files in /verif stay those of
the clean tree. Results are merged into seeded/RESULTS.json resp. refactors/RESULTS.json in the same format as the sequential tools.

usage: tools/run_matrix_parallel.py seeded|refactors [-j N] [name ...]"""
import concurrent.futures as cf
import json
import os
import shutil
import subprocess
import sys
import threading
import time

V = os.path.dirname(os.path.dirname(os.path.abspath(__file__)))
SCRATCH = "/var/tmp/wencry-matrix"


def sh(*a, **k):
    return subprocess.run(a, stdout=subprocess.PIPE, stderr=subprocess.STDOUT, text=True, errors="replace", **k)


def main():
    a = sys.argv[1:]
    kind = a.pop(0)
    j = 3
    if a and a[0] == "-j":
        j = int(a[1]); a = a[2:]
    base = os.path.join(V, kind)
    names = a or sorted(d for d in os.listdir(base) if os.path.exists(os.path.join(base, d, "patch.diff")))
    checks_all = [c["property_id"] for c in json.load(open(os.path.join(V, "MANIFEST.json")))["checks"]]
    rp = os.path.join(base, "RESULTS.json")
    results = json.load(open(rp)) if os.path.exists(rp) else {}
    lock = threading.Lock()
    os.makedirs(SCRATCH, exist_ok=True)
    slots = []
    for i in range(j):
        wt = os.path.join(SCRATCH, "wt%d" % i)
        vc = os.path.join(SCRATCH, "verif%d" % i)
        sh("git", "-C", "/repo", "worktree", "remove", "--force", wt)
        shutil.rmtree(wt, ignore_errors=True)
        r = sh("git", "-C", "/repo", "worktree", "add", "-q", "--detach", wt, "HEAD")
        if r.returncode:
            print(r.stdout); sys.exit(2)
        sh("rsync", "-a", "--delete", "--exclude", "build", "--exclude", ".git", "--exclude", "replays", "--exclude", "__pycache__", V + "/", vc + "/")
        slots.append((wt, vc))
    free = list(slots)

    def one(n):
        with lock:
            wt, vc = free.pop()
        try:
            d = os.path.join(base, n)
            sh("git", "-C", wt, "checkout", "--", ".")
            sh("git", "-C", wt, "clean", "-fdq")
            r = sh("git", "-C", wt, "apply", os.path.join(d, "patch.diff"))
            if r.returncode:
                with lock:
                    results[n] = "patch-does-not-apply"
                print(n, "patch does not apply:", r.stdout[:200], flush=True)
                return
            env = dict(os.environ)
            env["WENCRY_REPO"] = wt
            res = {}
            if kind == "seeded":
                meta = json.load(open(os.path.join(d, "meta.json")))
                pids = meta.get("expected_detection", meta.get("breaks", []))
            else:
                pids = checks_all
            for pid in pids:
                t = time.time()
                p = sh(os.path.join(vc, "check"), pid, "--tier", "quick", cwd=vc, env=env)
                keys = [l.split("key=")[1].split()[0] for l in p.stdout.splitlines() if l.strip().startswith("key=")]
                if kind == "seeded":
                    res[pid] = {"rc": p.returncode, "violation": "VIOLATION property=%s" % pid in p.stdout, "keys": keys[:6], "wall_s": round(time.time() - t, 1)}
                    print("%-52s %s rc=%d %s %s" % (n, pid, p.returncode, "DETECTED" if res[pid]["violation"] else "missed", keys[:3]), flush=True)
                else:
                    viol = [l.strip()[:200] for l in p.stdout.splitlines() if l.strip().startswith("key=")]
                    cd = [l[:200] for l in p.stdout.splitlines() if l.startswith("CANNOT-DECIDE")]
                    res[pid] = {"rc": p.returncode, "violations": viol[:4], "cannot_decide": cd[:1], "wall_s": round(time.time() - t, 1)}
                    print("%-28s %s rc=%d %s" % (n, pid, p.returncode, "silent" if p.returncode == 0 else ("CANNOT-DECIDE " + cd[0][:120] if cd else "ALARM " + "; ".join(viol[:2]))), flush=True)
            with lock:
                results[n] = res
                json.dump(results, open(rp, "w"), indent=1, sort_keys=True)
        finally:
            sh("git", "-C", wt, "checkout", "--", ".")
            sh("git", "-C", wt, "clean", "-fdq")
            with lock:
                free.append((wt, vc))

    with cf.ThreadPoolExecutor(max_workers=j) as ex:
        list(ex.map(one, names))
    for wt, vc in slots:
        sh("git", "-C", "/repo", "worktree", "remove", "--force", wt)
        shutil.rmtree(vc, ignore_errors=True)
    json.dump(results, open(rp, "w"), indent=1, sort_keys=True)
    print("done:", len(names), kind)


if __name__ == "__main__":
    main()
