#!/bin/bash
# try_seed.sh <patched tree> <Cxx>...: runs the quick tier of the named checks against a patched scratch tree (WENCRY_REPO) and
# prints verdict lines. Evidence files are overwritten: run tools/run_all_quick.sh on the clean tree afterwards.
WT=$1; shift
cd "$(dirname "$0")/.." || exit 2
for p in "$@"; do
  out=$(WENCRY_REPO=$WT ./check "$p" --tier ${TIER:-quick} 2>&1); r=$?
  echo "$out" | grep -E "^(OK|FAIL|VIOLATION|KNOWN-FINDING|CANNOT-DECIDE|NOTE)" | cut -c1-260
  echo "== $p rc=$r"
done
