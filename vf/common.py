"""Shared plumbing for the wencry checks: building harnesses from /repo's working tree,
running harness shards in parallel, aggregating their JSON-lines output, known findings,
replay artefacts and evidence files."""
import concurrent.futures as cf
import hashlib
import json
import os
import signal
import subprocess
import sys
import time

VERIF = os.path.dirname(os.path.dirname(os.path.abspath(__file__)))
REPO = os.environ.get("WENCRY_REPO", "/repo")
BUILD = os.path.join(VERIF, "build")
NCPU = int(os.environ.get("VERIF_JOBS", str(os.cpu_count() or 4)))
GUARD_DEFS = ["-DWENCRY_VERIF", "-DOPT_ON"]

REPO_SOURCES = [
    "kernel/cry.cpp", "kernel/fheader.cpp",
    "kernel/hash/hashbuffer.cpp", "kernel/hash/hashmaster.cpp", "kernel/hash/md5.cpp",
    "kernel/hash/sha1.cpp", "kernel/hash/sha256.cpp",
    "kernel/multi_aes/multicry.cpp", "kernel/multi_aes/multi_buffergroup.cpp",
    "kernel/multi_aes/aes/aes.cpp", "kernel/multi_aes/aes/aesmode.cpp",
    "valget/getopts.cpp", "valget/getval1.cpp", "valget/information.cpp",
    "valget/base64/base64.cpp",
]
INCLUDES = ["kernel", "kernel/hash", "kernel/multi_aes", "kernel/multi_aes/aes", "valget", "valget/base64"]


class CannotDecide(Exception):
    pass


def log(*a):
    print(*a, file=sys.stderr, flush=True)


def repo_fingerprint():
    h = hashlib.sha256()
    for root, dirs, files in os.walk(REPO):
        dirs[:] = sorted(d for d in dirs if d not in (".git", "_build", ".vscode", ".github"))
        for f in sorted(files):
            if f.endswith((".cpp", ".h", ".hpp", ".in", ".txt", ".c")):
                p = os.path.join(root, f)
                h.update(os.path.relpath(p, REPO).encode())
                with open(p, "rb") as fh:
                    h.update(fh.read())
    return h.hexdigest()


def verif_fingerprint(paths):
    h = hashlib.sha256()
    for p in paths:
        with open(p, "rb") as fh:
            h.update(p.encode())
            h.update(fh.read())
    return h.hexdigest()


def _gen_config(dirpath):
    os.makedirs(dirpath, exist_ok=True)
    p = os.path.join(dirpath, "config.h")
    if not os.path.exists(p):
        with open(p + ".tmp%d" % os.getpid(), "w") as f:
            f.write('#pragma once\n#define V_BUILD_TIME "verif"\n#define PROJECT_VERSION_MAJOR 3\n'
                    '#define PROJECT_VERSION_MINOR 7\n#define PROJECT_VERSION_PATCH 4\n#define PROJECT_VERSION "v3.7.4"\n')
        os.replace(p + ".tmp%d" % os.getpid(), p)
    return dirpath


def _run(cmd, what):
    r = subprocess.run(cmd, stdout=subprocess.PIPE, stderr=subprocess.STDOUT, text=True)
    if r.returncode != 0:
        raise CannotDecide("build step failed (%s):\n%s\n%s" % (what, " ".join(cmd), r.stdout[-4000:]))


def _compile_one(cxx, src, obj, flags):
    if os.path.exists(obj):
        return
    tmp = obj + ".tmp%d" % os.getpid()
    _run([cxx] + flags + ["-c", src, "-o", tmp], src)
    os.replace(tmp, obj)


INSTR_FLAGS = ["-finstrument-functions",
               "-finstrument-functions-exclude-function-list=addroundkey,subbytes,rowshift,columnmix,commonround,specround,get_key,genkey,genall,keyhandle,getXor,Aesmode,AesEncrypt,AesDecrypt,AesFactory,aeshandle"]


# fine variant (C01/C02 round-robin pass): callbacks also inside the round functions, so that a block transform is not atomic for the scheduler
INSTR_FLAGS_FINE = ["-finstrument-functions", "-finstrument-functions-exclude-function-list=get_key,genkey,genall,keyhandle,AesFactory"]


_pruned = False


def prune_cache(keep=24):
    """Disk is limited: keep only the most recently used object/executable directories (each tree state x flag set has its own)."""
    global _pruned
    if _pruned:
        return
    _pruned = True
    import shutil
    for kind in ("obj", "hobj", "exe"):
        d = os.path.join(BUILD, kind)
        try:
            subs = sorted((os.path.join(d, x) for x in os.listdir(d)), key=lambda p: os.path.getmtime(p), reverse=True)
        except OSError:
            continue
        for p in subs[keep:]:
            if time.time() - os.path.getmtime(p) > 1800:  # never remove something a concurrently running check may be using
                shutil.rmtree(p, ignore_errors=True)


def _touch(p):
    try:
        os.utime(p, None)
    except OSError:
        pass


def build_exe(name, harness_srcs, defs=(), sanitize="address", opt="-O1", repo_sources=None, libs=(), cxx="g++",
              extra_flags=(), with_sched=True, main_cpp=False, instrument_sources=(), instrument_fine=False):
    """Compile the repo sources (from the current working tree, hooks on) plus the harness into
    build/exe/<key>/<name>. Objects are cached by (repo fingerprint, flags)."""
    fp = repo_fingerprint()
    prune_cache()
    cfgdir = _gen_config(os.path.join(BUILD, "generated"))
    flags = ["-std=c++17", opt, "-g", "-fno-omit-frame-pointer", "-fno-access-control", "-pthread", "-w"]
    if sanitize == "address":
        flags += ["-fsanitize=address", "-fsanitize-recover=address"]
    elif sanitize == "thread":
        flags += ["-fsanitize=thread"]
    flags += GUARD_DEFS + list(defs) + list(extra_flags)
    inc = ["-I" + os.path.join(REPO, d) for d in INCLUDES] + ["-I" + cfgdir, "-I" + os.path.join(VERIF, "sched"),
                                                                  "-I" + os.path.join(VERIF, "harness"), "-I" + os.path.join(VERIF, "ref")]
    fkey = hashlib.sha256((cxx + " ".join(flags)).encode()).hexdigest()[:16]
    objdir = os.path.join(BUILD, "obj", fp[:16] + "-" + fkey)
    os.makedirs(objdir, exist_ok=True)
    srcs = list(repo_sources if repo_sources is not None else REPO_SOURCES)
    if main_cpp:
        srcs.append("main.cpp")
    jobs = []
    objs = []
    for s in srcs:
        ins = s in instrument_sources  # function-entry/exit callbacks (scheduling points inside code that has no source hooks)
        o = os.path.join(objdir, s.replace("/", "_") + ((".instrfine.o" if instrument_fine else ".instr.o") if ins else ".o"))
        objs.append(o)
        jobs.append((cxx, os.path.join(REPO, s), o, flags + inc + ((INSTR_FLAGS_FINE if instrument_fine else INSTR_FLAGS) if ins else [])))
    hdeps = [os.path.join(VERIF, "harness", f) for f in sorted(os.listdir(os.path.join(VERIF, "harness")))]
    hdeps += [os.path.join(VERIF, "sched", f) for f in sorted(os.listdir(os.path.join(VERIF, "sched")))]
    hdeps += [os.path.join(VERIF, "ref", f) for f in sorted(os.listdir(os.path.join(VERIF, "ref")))]
    hkey = verif_fingerprint([p for p in hdeps if os.path.isfile(p)])[:16]
    hobjdir = os.path.join(BUILD, "hobj", fp[:16] + "-" + fkey + "-" + hkey)
    os.makedirs(hobjdir, exist_ok=True)
    for s in harness_srcs:
        sp = os.path.join(VERIF, s)
        o = os.path.join(hobjdir, s.replace("/", "_") + ".o")
        objs.append(o)
        jobs.append((cxx, sp, o, flags + inc))
    if with_sched:
        so = os.path.join(hobjdir, "vsched_%s.o" % sanitize)
        objs.append(so)
        cflags = ["-O1", "-g", "-fno-omit-frame-pointer", "-pthread", "-w"]
        jobs.append(("gcc" if cxx == "g++" else "clang", os.path.join(VERIF, "sched", "vsched.c"), so, cflags + ["-fexceptions"]))
        sox = os.path.join(hobjdir, "vsched_cxx_%s.o" % sanitize)
        objs.append(sox)
        jobs.append((cxx, os.path.join(VERIF, "sched", "vsched_cxx.cpp"), sox, ["-std=c++17"] + cflags + ["-I" + os.path.join(VERIF, "sched")]))
    with cf.ThreadPoolExecutor(max_workers=NCPU) as ex:
        futs = [ex.submit(_compile_one, *j) for j in jobs]
        for f in futs:
            f.result()
    exedir = os.path.join(BUILD, "exe", fp[:16] + "-" + fkey + "-" + hkey + (("-instrfine" if instrument_fine else "-instr") if instrument_sources else ""))
    os.makedirs(exedir, exist_ok=True)
    for p in (objdir, hobjdir, exedir):
        _touch(p)
    exe = os.path.join(exedir, name)
    if not os.path.exists(exe):
        tmp = exe + ".tmp%d" % os.getpid()
        link = [cxx] + [f for f in flags if f.startswith("-fsanitize") or f in ("-pthread", "-g")] + objs + ["-o", tmp, "-ldl"] + list(libs)
        _run(link, "link " + name)
        os.replace(tmp, exe)
    return exe


HARNESS_ENV = {
    "ASAN_OPTIONS": "detect_leaks=0:new_delete_type_mismatch=0:alloc_dealloc_mismatch=0:halt_on_error=1:exitcode=77:abort_on_error=0:allocator_may_return_null=1:max_allocation_size_mb=2048:handle_segv=1:detect_stack_use_after_return=0",
}


def run_jobs(jobs, deadline=None, nproc=None, pin=True):
    """jobs: list of argv lists. Runs them in parallel; returns list of (argv, rc, records, stderr_tail).
    Every stdout line that parses as JSON is a record."""
    env = dict(os.environ)
    env.update(HARNESS_ENV)
    nproc = nproc or NCPU

    import queue
    import shutil
    cores = queue.Queue()
    try:
        avail = sorted(os.sched_getaffinity(0))
    except Exception:
        avail = list(range(nproc))
    nproc = min(nproc, len(avail)) if pin else nproc
    for k in avail[:nproc]:
        cores.put(k)
    have_taskset = pin and shutil.which("taskset") is not None

    def one(argv):
        # each harness process serialises its own threads, so it is pinned to one core: hand-offs stay
        # core-local (measured 2.7x faster than letting the kernel migrate the threads)
        core = cores.get() if have_taskset else None
        try:
            return one_(argv if core is None else ["taskset", "-c", str(core)] + argv, argv)
        finally:
            if core is not None:
                cores.put(core)

    def one_(argv, orig):
        to = None
        if deadline is not None:
            to = max(5.0, deadline - time.time())
        # own session: at the deadline the whole process group goes (a harness forks one child per case / execution, and a child of a
        # broken tree may spin for ever; killing only the harness would leave those behind to eat the machine)
        pr = subprocess.Popen(argv, stdout=subprocess.PIPE, stderr=subprocess.PIPE, env=env, start_new_session=True)
        try:
            out, err = pr.communicate(timeout=to)
            rc = pr.returncode
        except subprocess.TimeoutExpired:
            try:
                os.killpg(pr.pid, signal.SIGKILL)
            except Exception:
                pr.kill()
            out, err = pr.communicate()
            rc = -999
        recs = []
        for line in out.decode("utf-8", "replace").splitlines():
            line = line.strip()
            if line.startswith("{"):
                try:
                    recs.append(json.loads(line))
                except Exception:
                    pass
        return (orig, rc, recs, err.decode("utf-8", "replace")[-3000:])

    with cf.ThreadPoolExecutor(max_workers=nproc) as ex:
        return list(ex.map(one, jobs))


class Agg:
    """Aggregates harness records:
    {"t":"cov", <numeric counters to be summed>}, {"t":"sample", ...}, {"t":"viol","key":..,"desc":..,"replay":{..}},
    {"t":"hist","name":..,"counts":{..}}, {"t":"set","name":..,"items":[..]}, {"t":"flag","name":..,"value":bool} (AND-ed)"""

    def __init__(self):
        self.cov = {}
        self.samples = []
        self.viol = []
        self.hist = {}
        self.sets = {}
        self.flags = {}
        self.failed = []
        self.info = []

    def add(self, results, max_samples=12):
        for argv, rc, recs, err in results:
            if rc != 0:
                self.failed.append((argv, rc, err))
            for r in recs:
                t = r.get("t")
                if t == "cov":
                    for k, v in r.items():
                        if k != "t" and isinstance(v, (int, float)):
                            self.cov[k] = self.cov.get(k, 0) + v
                elif t == "sample":
                    if len(self.samples) < max_samples:
                        self.samples.append({k: v for k, v in r.items() if k != "t"})
                elif t == "viol":
                    self.viol.append(r)
                elif t == "hist":
                    h = self.hist.setdefault(r["name"], {})
                    for k, v in r["counts"].items():
                        h[k] = h.get(k, 0) + v
                elif t == "set":
                    self.sets.setdefault(r["name"], set()).update(r["items"])
                elif t == "flag":
                    self.flags[r["name"]] = self.flags.get(r["name"], True) and bool(r["value"])
                elif t == "info":
                    self.info.append({k: v for k, v in r.items() if k != "t"})


def load_known():
    known, fixed = {}, []
    p = os.path.join(VERIF, "known-findings.txt")
    if os.path.exists(p):
        for line in open(p):
            line = line.strip()
            if line.startswith("known:"):
                parts = line.split()
                pid = [x for x in parts if x.startswith("property=")][0].split("=", 1)[1]
                key = [x for x in parts if x.startswith("key=")][0].split("=", 1)[1]
                rest = line.split("key=" + key, 1)[1].strip()
                known[(pid, key)] = rest
            elif line.startswith("fixed:"):
                fixed.append(line)
    return known, fixed


def finish(pid, tier, level, coverage, violations, assumptions, t0, seed=0, exhaustive=True, cannot_decide=None):
    """violations: list of dicts with key, desc, replay. Writes replay files + evidence, prints
    KNOWN-FINDING / VIOLATION lines and returns the exit status."""
    known, _ = load_known()
    os.makedirs(os.path.join(VERIF, "replays"), exist_ok=True)
    os.makedirs(os.path.join(VERIF, "evidence"), exist_ok=True)
    seen_known = {}
    new = {}
    for v in violations:
        k = (pid, v["key"])
        if k in known:
            seen_known.setdefault(v["key"], []).append(v)
        else:
            new.setdefault(v["key"], []).append(v)
    for key, vs in sorted(seen_known.items()):
        print("KNOWN-FINDING: property=%s key=%s %s (%d instance(s) this run, e.g. %s)" % (pid, key, known[(pid, key)], len(vs), vs[0].get("desc", "")[:160]))
    rc = 0
    nviol = 0
    for key, vs in sorted(new.items()):
        v = vs[0]
        hh = hashlib.sha256(json.dumps(v.get("replay", {}), sort_keys=True).encode()).hexdigest()[:12]
        path = os.path.join(VERIF, "replays", "%s-%s.json" % (pid, hh))
        with open(path, "w") as f:
            json.dump({"property": pid, "key": key, "desc": v.get("desc", ""), "instances": len(vs), "replay": v.get("replay", {})}, f, indent=1)
        print("VIOLATION property=%s replay=%s" % (pid, path))
        print("  key=%s instances=%d: %s" % (key, len(vs), v.get("desc", "")[:400]))
        rc = 1
        nviol += len(vs)
    coverage = dict(coverage)
    coverage.setdefault("exhaustive", bool(exhaustive))
    coverage["known_findings_seen"] = sorted(seen_known.keys())
    ev = {
        "property_id": pid,
        "tier": tier,
        "seed": int(seed),
        "level": level,
        "coverage": coverage,
        "assumptions": assumptions,
        "wall_s": round(time.time() - t0, 2),
        "violations": nviol,
    }
    with open(os.path.join(VERIF, "evidence", "%s.json" % pid), "w") as f:
        json.dump(ev, f, indent=1, sort_keys=True)
    if cannot_decide:
        print("CANNOT-DECIDE property=%s: %s" % (pid, cannot_decide))
        return 2
    print("%s %s tier=%s evaluations=%s distinct_nontrivial=%s exhaustive=%s wall=%.1fs" % (
        "OK" if rc == 0 else "FAIL", pid, tier, coverage.get("evaluations"), coverage.get("distinct_nontrivial"), coverage.get("exhaustive"), time.time() - t0))
    return rc


def tier_from_env(argv_tier=None):
    t = argv_tier or os.environ.get("VERIF_TIER") or "quick"
    return "thorough" if t.startswith("t") else "quick"


def seed_from_env():
    try:
        return int(os.environ.get("VERIF_SEED", "0"))
    except ValueError:
        return 0
