"""setup_cmd: warm the build cache and run the framework's self-tests."""
import sys
import time

from . import common as c


def run():
    t0 = time.time()
    try:
        from . import pipeline, fileprops
        builds = set()
        for (bufsz, san, args, nsh) in pipeline.cfgs_quick():
            builds.add(("pipe_explore", ("harness/pipe_explore.cpp",), tuple(["-DWENCRY_VERIF_BUF_SZ=%d" % bufsz, "-DWENCRY_VERIF_HBUF_SZ=2"]), san, False))
        for pid, sp in fileprops.SPECS.items():
            for b in sp["plan"]("quick"):
                builds.add((sp["harness"], tuple(sp["src"]), tuple(b.get("defs", [])), b.get("sanitize", "address"), b.get("main_cpp", False)))
        for (name, src, defs, san, main_cpp) in sorted(builds):
            c.build_exe(name, list(src), defs=list(defs), sanitize=san, libs=["-lcrypto"], main_cpp=main_cpp)
        from . import cli
        cli.build_tools()
        try:
            from . import selftest
            rc = selftest.run()
            if rc != 0:
                print("SETUP: self-test failed")
                return rc
        except ImportError:
            pass
    except c.CannotDecide as e:
        print("SETUP: build failed\n" + str(e))
        return 2
    print("SETUP ok in %.1fs" % (time.time() - t0))
    return 0
