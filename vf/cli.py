"""C17: the real command-line binary (built from the working tree with ASan) on an enumerated grid of option vectors."""
import base64
import concurrent.futures as cf
import hashlib
import itertools
import json
import os
import shutil
import subprocess
import time

from . import common as c

KEY = bytes.fromhex("00112233445566778899aabbccddeeff")
KEYTXT = base64.b64encode(KEY).decode()
WRONG = base64.b64encode(bytes.fromhex("00112233445566778899aabbccddee00")).decode()
PROD_S = 0x1000000
T = 4

MODES = ["none", "e", "d", "v", "V", "h", "e+d", "v+h", "cluster-en", "cluster-edv", "long-encode", "long-decode"] + \
        ["cluster2-" + a + b for a in "edvhV" for b in "edvhV" if a != b]  # every two-letter cluster of two different mode letters (-de, -he, ...): two modes
INS = ["absent", "file", "missing", "path123", "path300", "valid", "tampered", "empty", "directory", "devnull", "fifo", "name251", "wencdir", "wencexists"]
OUTS = ["absent", "writable", "unwritable", "existing", "via-no"]  # via-no: `-no PATH` = -n and -o PATH in one cluster
KEYS = ["absent", "right", "wrong", "len23", "nopad", "badsym", "len25", "onepad", "hibyte"]
CMODES = ["absent", "0", "1", "2", "3", "4", "5", "-1", "256", "abc", "127"]
HMODES = ["absent", "0", "1", "2", "3", "abc"]
NS = ["absent", "n"]
EXTRAS = ["none", "unknown", "missingarg", "repeat-input", "repeat-cmode", "repeat-key", "dashdash-stray", "positional", "key-then-badkey", "input-then-missing"]
DIMS = [MODES, INS, OUTS, KEYS, CMODES, HMODES, NS, EXTRAS]
DIMNAMES = ["mode", "in", "out", "key", "cmode", "hmode", "noecho", "extra"]


def build_tools():
    exe = c.build_exe("Wencry", [], defs=[], sanitize="address", libs=[], with_sched=False, main_cpp=True)
    tooldir = os.path.join(c.BUILD, "tools")
    os.makedirs(tooldir, exist_ok=True)
    src = os.path.join(c.VERIF, "tools", "src", "reftool.cpp")
    key = c.verif_fingerprint([src, os.path.join(c.VERIF, "ref", "ref.hpp")])[:16]
    rt = os.path.join(tooldir, "reftool-" + key)
    if not os.path.exists(rt):
        tmp = rt + ".tmp%d" % os.getpid()
        c._run(["g++", "-std=c++17", "-O1", "-w", "-I" + os.path.join(c.VERIF, "ref"), src, "-o", tmp, "-lcrypto"], "reftool")
        os.replace(tmp, rt)
    return exe, rt


class Fixture:
    def __init__(self, root, reftool):
        self.root = root
        os.makedirs(root, exist_ok=True)
        self.plain = bytes((i * 7 + 1) % 256 for i in range(100))
        self.f = os.path.join(root, "plain.bin")
        open(self.f, "wb").write(self.plain)
        self.empty = os.path.join(root, "empty.bin")
        open(self.empty, "wb").close()
        self.valid = os.path.join(root, "valid.wenc")
        subprocess.run([reftool, "encrypt", self.f, self.valid, KEY.hex(), "2", "1", "fixture", str(T), str(PROD_S)], check=True)
        b = bytearray(open(self.valid, "rb").read())
        b[-2] ^= 0x10
        self.tampered = os.path.join(root, "tampered.wenc")
        open(self.tampered, "wb").write(bytes(b))


def make_argv(vec, fx, rundir):
    """returns (argv tail, info dict)"""
    mode, inn, out, key, cm, hm, noecho, extra = vec
    a = []
    info = {"in": None, "out": None, "key": None, "mode": None}
    m = {"none": [], "e": ["-e"], "d": ["-d"], "v": ["-v"], "V": ["-V"], "h": ["-h"], "e+d": ["-e", "-d"], "v+h": ["-v", "-h"],
         "cluster-en": ["-en"], "cluster-edv": ["-edv"], "long-encode": ["--encode"], "long-decode": ["--decode"]}.get(mode) if not mode.startswith("cluster2-") else ["-" + mode[9:]]
    a += m
    info["mode"] = {"e": "e", "d": "d", "v": "v", "V": "V", "h": "h", "cluster-en": "e", "long-encode": "e", "long-decode": "d"}.get(mode)
    if inn != "absent":
        if inn == "path123":  # "<path>.wenc" needs 129 bytes: one more than the fixed default-name buffer
            src = os.path.join(rundir, "p" * (123 - len(rundir) - 1))
            assert len(src) == 123
            open(src, "wb").write(fx.plain)
        elif inn == "path300":
            deep = os.path.join(rundir, "x" * 100, "y" * 100)
            os.makedirs(deep, exist_ok=True)
            src = os.path.join(deep, "z" * (300 - len(deep) - 1))
            open(src, "wb").write(fx.plain)
        elif inn == "name251":  # the input opens, but "<input>.wenc" is longer than NAME_MAX: the default output cannot be created
            src = os.path.join(rundir, "n" * 251)
            open(src, "wb").write(fx.plain)
        elif inn == "wencdir":  # the input opens, but "<input>.wenc" already exists as a directory
            src = os.path.join(rundir, "plainw.bin")
            open(src, "wb").write(fx.plain)
            os.makedirs(src + ".wenc", exist_ok=True)
        elif inn == "wencexists":  # "<input>.wenc" already exists as a regular file that is longer than anything this run writes
            src = os.path.join(rundir, "plainx.bin")
            open(src, "wb").write(fx.plain)
            open(src + ".wenc", "wb").write(bytes((i * 11 + 5) % 256 for i in range(5000)))
        elif inn == "directory":
            src = os.path.join(rundir, "a-directory")
            os.makedirs(src, exist_ok=True)
        elif inn == "devnull":
            src = "/dev/null"
        elif inn == "fifo":  # a named pipe that a writer fills with the plaintext and closes
            src = os.path.join(rundir, "in.fifo")
            try:
                os.mkfifo(src)
                info["fifo_data"] = fx.plain
            except OSError:  # no FIFOs on this file system: fall back to a regular file (the vector is then a duplicate of "file")
                open(src, "wb").write(fx.plain)
        else:
            src = {"file": fx.f, "missing": os.path.join(fx.root, "no-such-file"), "valid": fx.valid, "tampered": fx.tampered, "empty": fx.empty}[inn]
        # work on a private copy so that default output names land in the run directory
        if inn in ("file", "valid", "tampered", "empty"):
            dst = os.path.join(rundir, os.path.basename(src))
            shutil.copyfile(src, dst)
            src = dst
        a += ["-i", src]
        info["in"] = src
    if out != "absent":
        o = os.path.join(rundir, "out.bin") if out in ("writable", "existing", "via-no") else os.path.join(rundir, "no-such-dir", "out.bin")
        if out == "existing":  # the output path already holds a longer file (an earlier result, somebody else's data)
            open(o, "wb").write(bytes((i * 13 + 7) % 256 for i in range(5000)))
        a += ["-no" if out == "via-no" else "-o", o]
        info["out"] = o
    if key != "absent":
        k = {"right": KEYTXT, "wrong": WRONG, "len23": KEYTXT[:23], "nopad": KEYTXT[:22] + "AA", "badsym": KEYTXT[:5] + "*" + KEYTXT[6:], "len25": KEYTXT + "A",
             "onepad": KEYTXT[:22] + "A=", "hibyte": KEYTXT[:7] + "\udcff" + KEYTXT[8:]}[key]  # hibyte: the raw byte 0xFF (not a base64 symbol) in the key text
        a += ["-k", k]
        info["key"] = k
    if cm != "absent":
        a += ["--cmode", cm]
    if hm != "absent":
        a += ["--hmode", hm]
    if noecho == "n":
        a += ["-n"]
    if extra == "unknown":
        a += ["-z"]
    elif extra == "missingarg":
        a += ["-i"]
    elif extra == "repeat-input" and info["in"] and inn != "fifo":  # (a FIFO opened twice blocks in open(2) for ever: the OS, not wencry)   # the same option given twice (same value): outcome undocumented, must not crash or lie
        a += ["-i", info["in"]]
    elif extra == "repeat-cmode":
        a += ["--cmode", "1", "--cmode", "2"] if cm == "absent" else ["--cmode", cm]
    elif extra == "repeat-key" and info["key"]:
        a += ["-k", info["key"]]
    elif extra == "key-then-badkey":  # a later malformed value after an earlier good one: error paths that release what the first occurrence acquired
        a += ["-k", "AAAA"]
    elif extra == "input-then-missing":
        a += ["-i", os.path.join(rundir, "no-such-second-input")]
    elif extra == "dashdash-stray":
        a += ["--", "stray-argument"]
    elif extra == "positional":
        a += ["stray-argument"]
    return a, info


def well_formed(vec):
    mode, inn, out, key, cm, hm, noecho, extra = vec
    if mode in ("none", "e+d", "v+h", "cluster-edv") or mode.startswith("cluster2-"):
        return False
    if extra in ("unknown", "missingarg"):
        return False
    if key in ("len23", "nopad", "badsym", "len25", "onepad", "hibyte"):
        return False
    if out == "unwritable":
        return False
    if mode in ("V", "h"):
        return True
    if inn in ("absent", "missing"):
        return False
    if inn in ("directory", "devnull", "fifo"):
        return True
    m = {"cluster-en": "e", "long-encode": "e", "long-decode": "d"}.get(mode, mode)
    if cm in ("5", "127") or hm == "3":
        return False  # out-of-range mode numbers are rejected for every operation
    if m == "d" and (key == "absent" or out == "absent"):
        return False
    if m == "v" and key == "absent":
        return False
    return True


UNDOCUMENTED_EXTRAS = ("repeat-input", "repeat-cmode", "repeat-key", "dashdash-stray", "positional", "key-then-badkey", "input-then-missing")


def must_fail(vec):
    """only outcomes the documentation leaves no doubt about"""
    mode, inn, out, key, cm, hm, noecho, extra = vec
    if extra in UNDOCUMENTED_EXTRAS and well_formed(vec):
        return False  # repeated options / stray arguments: acceptance is not documented either way
    if mode in ("V", "h") and extra == "none" and key not in ("len23", "nopad", "badsym", "len25", "onepad", "hibyte") and out != "unwritable" and inn != "missing":
        return False
    if not well_formed(vec):
        # value classes whose acceptance the documentation leaves open are not in well_formed's reject list
        return True
    m = {"cluster-en": "e", "long-encode": "e", "long-decode": "d"}.get(mode, mode)
    if m in ("d", "v"):
        if inn != "valid" or key != "right":
            return True
        if cm in ("5", "127") or hm == "3":
            return True  # Settings rejects them for every mode
    return False


def must_succeed(vec):
    mode, inn, out, key, cm, hm, noecho, extra = vec
    if not well_formed(vec) or extra in UNDOCUMENTED_EXTRAS:
        return False
    if mode in ("V", "h"):
        return inn in ("absent", "file", "valid", "empty") and cm == "absent" and hm == "absent" and key in ("absent", "right")
    m = {"cluster-en": "e", "long-encode": "e", "long-decode": "d"}.get(mode, mode)
    if cm in ("-1", "256", "abc", "127", "5") or hm in ("3", "abc"):
        return False
    if m == "e":
        return inn in ("file", "empty", "valid", "tampered", "wencexists") or (inn in ("name251", "wencdir") and out in ("writable", "existing", "via-no"))
    if m in ("d", "v"):
        return inn == "valid" and key == "right"
    return False


RUNLOG = {}  # idx -> normalised output lines of every run that ended normally with a non-zero exit status


def norm_lines(text):
    """output lines with everything run-specific removed (paths, numbers, key text): what is left is the wording"""
    import re
    out = set()
    for line in text.splitlines():
        line = line.strip()
        if not line:
            continue
        line = re.sub(r"\S*/\S*", "<path>", line)
        line = re.sub(r"[A-Za-z0-9+/]{22}==", "<key>", line)
        line = re.sub(r"\d+", "#", line)
        out.add(re.sub(r"\s+", " ", line))
    return frozenset(out)


GOOD_LINES = set()  # every (normalised) line some successful run printed


def undiagnosed_failures(runlog):
    """'otherwise prints a diagnostic and exits non-zero': a run that exits non-zero must print at least one line that no successful
    run prints (wording-independent: the set of lines successful runs print is observed, not prescribed). returns failing idx list"""
    return [i for i, lines in sorted(runlog.items()) if lines <= GOOD_LINES]


def run_vector(exe, reftool, fx, vec, idx, workroot):
    rundir = os.path.join(workroot, "r%d" % idx)
    os.makedirs(rundir, exist_ok=True)
    try:
        tail, info = make_argv(vec, fx, rundir)
        env = dict(os.environ)
        env["ASAN_OPTIONS"] = "detect_leaks=0:new_delete_type_mismatch=0:alloc_dealloc_mismatch=0:exitcode=77:abort_on_error=0:allocator_may_return_null=1"
        default_out = (info["in"] + ".wenc") if info["in"] else None
        in_before = None
        if info["in"] and os.path.isfile(info["in"]) and (info["out"] is None or os.path.realpath(info["out"]) != os.path.realpath(info["in"])):
            in_before = open(info["in"], "rb").read()
        feeder = None
        if info.get("fifo_data") is not None:
            import threading

            def feed():
                fd = -1
                try:
                    fd = os.open(info["in"], os.O_WRONLY)
                    os.write(fd, info["fifo_data"])
                except OSError:
                    pass
                finally:
                    if fd >= 0:
                        try:
                            os.close(fd)
                        except OSError:
                            pass
            feeder = threading.Thread(target=feed, daemon=True)
            feeder.start()
        try:
            p = subprocess.run([exe] + tail, stdout=subprocess.PIPE, stderr=subprocess.PIPE, env=env, cwd=rundir, timeout=120, stdin=subprocess.DEVNULL)
            rc, so, se = p.returncode, p.stdout.decode("utf-8", "replace"), p.stderr.decode("utf-8", "replace")
        except subprocess.TimeoutExpired:
            return ("hang", "did not terminate within 120 s", tail)
        finally:
            if feeder is not None:  # unblock a writer nobody read from
                try:
                    fd = os.open(info["in"], os.O_RDONLY | os.O_NONBLOCK)
                    os.close(fd)
                except OSError:
                    pass
                feeder.join(2)
        mode = info["mode"]
        vname = " ".join("%s=%s" % kv for kv in zip(DIMNAMES, vec))
        if rc < 0:
            return ("crash:signal", "killed by signal %d" % (-rc), tail)
        if rc == 77 or "AddressSanitizer" in se:
            kind = "asan"
            for line in se.splitlines():
                if "ERROR: AddressSanitizer" in line:
                    kind = line.split("AddressSanitizer:")[1].strip().split()[0]
                    break
            return ("crash:" + kind, "AddressSanitizer: " + kind, tail)
        ok = (rc == 0)
        wf = well_formed(vec)
        # (with -n/--no_echo the user asked for silence: whether a failure is then still announced is a don't-care)
        dontcare = vec[1] in ("directory", "devnull", "fifo") or vec[6] == "n" or vec[0] in ("cluster-en",) or vec[2] == "via-no"
        if ok:
            GOOD_LINES.update(norm_lines(so + "\n" + se))
        elif not dontcare:  # only failing runs are kept (the full product has millions of vectors)
            RUNLOG[idx] = norm_lines(so + "\n" + se)
        if in_before is not None and (not os.path.isfile(info["in"]) or open(info["in"], "rb").read() != in_before):
            return ("input-modified", "the input file %s was changed by the run (%d bytes before, %s after) (%s)" % (os.path.basename(info["in"]), len(in_before), os.path.getsize(info["in"]) if os.path.isfile(info["in"]) else "gone", vname), tail)
        if vec[1] in ("directory", "devnull", "fifo"):
            # what an operation on a non-regular input should yield is not documented: only (1) applies
            if (not ok) and not (so.strip() or se.strip()):
                return ("silent-failure", "non-zero exit without any diagnostic", tail)
            return (None, "rc=%d non-regular input: crash oracle only" % rc, tail)
        # ---- consistency: exit status 0 <=> the effect is really there
        m = mode
        outp = info["out"] or default_out
        effect = None
        keytxt = info["key"]
        if m == "e":
            if keytxt is None:
                for line in so.splitlines():
                    if line.startswith("Key is:"):
                        keytxt = line.split()[-1]
            effect = False
            if outp and os.path.exists(outp) and keytxt and info["in"] and os.path.exists(info["in"]):
                try:
                    kh = base64.b64decode(keytxt, validate=True).hex()
                except Exception:
                    kh = None
                if kh and len(kh) == 32:
                    r = subprocess.run([reftool, "check-enc", info["in"], outp, kh, str(T), str(PROD_S)], stdout=subprocess.PIPE)
                    effect = (r.returncode == 0)
        elif m == "d":
            effect = False
            if outp and os.path.exists(outp) and keytxt and info["in"] and os.path.exists(info["in"]):
                try:
                    kh = base64.b64decode(keytxt, validate=True).hex()
                except Exception:
                    kh = None
                if kh and len(kh) == 32:
                    refout = os.path.join(rundir, "ref.out")
                    r = subprocess.run([reftool, "decrypt", info["in"], kh, str(T), str(PROD_S), refout], stdout=subprocess.PIPE)
                    effect = (r.returncode == 0 and open(refout, "rb").read() == open(outp, "rb").read())
        elif m == "v":
            effect = False
            if keytxt and info["in"] and os.path.exists(info["in"]):
                try:
                    kh = base64.b64decode(keytxt, validate=True).hex()
                except Exception:
                    kh = None
                if kh and len(kh) == 32:
                    r = subprocess.run([reftool, "verify", info["in"], kh], stdout=subprocess.PIPE)
                    effect = (r.returncode == 0)
        if ok and effect is False:
            return ("exit0-without-effect:" + (m or "?"), "exit status 0 but the requested result is not there (%s)" % vname, tail)
        if (not ok) and effect is True and wf and not (m == "v" and vec[7] in UNDOCUMENTED_EXTRAS):
            # (for -v the "effect" is a fact about the input, not something the run produced: with a repeated option or a stray
            #  argument the program may legitimately refuse before verifying anything)
            return ("nonzero-exit-with-effect:" + (m or "?"), "exit status %d although the operation succeeded completely (%s)" % (rc, vname), tail)
        if (not ok) and not (so.strip() or se.strip()):
            return ("silent-failure", "non-zero exit without any diagnostic", tail)
        if ok and must_fail(vec):
            return ("accepted-invalid-command-line:" + first_defect(vec), "exit status 0 for a command line that must be rejected (%s)" % vname, tail)
        if (not ok) and must_succeed(vec):
            return ("rejected-valid-command-line:" + (m or vec[0]), "exit status %d for a documented valid usage (%s)" % (rc, vname), tail)
        return (None, "rc=%d effect=%s" % (rc, effect), tail)
    finally:
        shutil.rmtree(rundir, ignore_errors=True)


def c12_cli(tier):
    """C12 at the command line (post pass of the C12 check): for every (file, key) class, `-v`, `-d -o OUT` and `-d` without -o are run on
    private copies; the input must be byte-identical afterwards, -v must not create anything, -v and -d -o must agree on the exit status.
    returns (coverage dict, violations)"""
    exe, reftool = build_tools()
    root = os.path.join("/dev/shm" if os.path.isdir("/dev/shm") else c.BUILD, "wencry-c12cli-%d" % os.getpid())
    shutil.rmtree(root, ignore_errors=True)
    os.makedirs(root)
    viol, nruns, ncls = [], 0, 0
    env = dict(os.environ)
    env["ASAN_OPTIONS"] = "detect_leaks=0:new_delete_type_mismatch=0:alloc_dealloc_mismatch=0:exitcode=77:abort_on_error=0:allocator_may_return_null=1"
    try:
        fx = Fixture(os.path.join(root, "fx"), reftool)
        valid = open(fx.valid, "rb").read()
        tampered = open(fx.tampered, "rb").read()
        files = [("valid", valid), ("tampered", tampered), ("garbage", bytes((i * 37 + 11) % 256 for i in range(100))), ("empty", b"")]
        for L in ((9, 48, 127, 129) if tier != "thorough" else (1, 8, 9, 10, 30, 47, 48, 60, 127, 128, 129, 143, len(valid) - 1)):
            files.append(("valid-cut-to-%d" % L, valid[:L]))
        names = ["data.wenc", "backup.bin", "x.wenc.old", "noext"]
        for (fname, content) in files:
            for name in names:
                for key in (KEYTXT, WRONG):
                    ncls += 1
                    st = {}
                    for op in ("v", "d-o", "d"):
                        wd = os.path.join(root, "w")
                        shutil.rmtree(wd, ignore_errors=True)
                        os.makedirs(wd)
                        src = os.path.join(wd, name)
                        open(src, "wb").write(content)
                        args = [exe, "-v" if op == "v" else "-d", "-i", src, "-k", key] + (["-o", os.path.join(wd, "result.out")] if op == "d-o" else [])
                        try:
                            r = subprocess.run(args, stdout=subprocess.DEVNULL, stderr=subprocess.DEVNULL, env=env, cwd=wd, timeout=120, stdin=subprocess.DEVNULL)
                            st[op] = r.returncode
                        except subprocess.TimeoutExpired:
                            st[op] = "hang"
                        nruns += 1
                        what = "`%s -i %s -k %s%s` on a %s file" % ("-v" if op == "v" else "-d", name, "<right key>" if key == KEYTXT else "<wrong key>", " -o result.out" if op == "d-o" else "", fname)
                        after = open(src, "rb").read() if os.path.isfile(src) else None
                        if after != content:
                            viol.append({"key": "input-modified:cli", "desc": what + " changed its input file (%d bytes before, %s after)" % (len(content), "gone" if after is None else "%d bytes" % len(after)),
                                         "replay": {"c12_cli": [fname, name, op, key == KEYTXT]}})
                        if op == "v" and sorted(os.listdir(wd)) != [name]:
                            viol.append({"key": "verify-wrote-output:cli", "desc": what + " created " + ", ".join(x for x in sorted(os.listdir(wd)) if x != name), "replay": {"c12_cli": [fname, name, op, key == KEYTXT]}})
                    if "hang" not in (st["v"], st["d-o"]) and (st["v"] == 0) != (st["d-o"] == 0):
                        viol.append({"key": "verify-decrypt-disagree:cli", "desc": "on a %s file named %s with the %s key `-v` exits %s and `-d -o` exits %s" % (fname, name, "right" if key == KEYTXT else "wrong", st["v"], st["d-o"]),
                                     "replay": {"c12_cli": [fname, name, "v/d-o", key == KEYTXT]}})
    finally:
        shutil.rmtree(root, ignore_errors=True)
    seen, out = set(), []
    for v in viol:  # a few per key
        n = sum(1 for k in seen if k[0] == v["key"])
        if n < 3:
            seen.add((v["key"], v["desc"]))
            out.append(v)
    return {"cli_file_key_classes": ncls, "cli_runs": nruns,
            "cli_note": "real binary: -v, -d -o OUT and -d (no -o) on private copies of {valid, tampered, garbage, empty, cut} files under names with and without .wenc, right and wrong key; "
                        "input byte-identical afterwards, -v creates nothing, -v and -d -o agree"}, out


def io_fault_pass(exe, reftool, fx, workroot, tier, only_wrong_key=False):
    """Every point at which writing the output can start to fail (the environment's answer deviates once from the default "write
    succeeds"): the real binary runs with RLIMIT_FSIZE = N for EVERY N below the size of the complete output (the write that crosses the
    limit is cut short, every later one fails with EFBIG; SIGXFSZ ignored, as under a shell with `trap '' XFSZ`), plus an output device
    that refuses every write (/dev/full). Oracle = C17's: the program terminates, does not crash, and exits 0 only if the requested result
    is completely there. returns (coverage, violations)"""
    if shutil.which("prlimit") is None:
        return {"io_fault_pass": "prlimit not available: write-failure points not explored"}, []
    env = dict(os.environ)
    env["ASAN_OPTIONS"] = "detect_leaks=0:new_delete_type_mismatch=0:alloc_dealloc_mismatch=0:exitcode=77:abort_on_error=0:allocator_may_return_null=1"
    root = os.path.join(workroot, "iofault")
    os.makedirs(root, exist_ok=True)
    big = os.path.join(root, "big.bin")
    open(big, "wb").write(bytes((i * 7 + 3) % 256 for i in range(5000)))
    kh = KEY.hex()
    ops = [("e", fx.f, ["-e", "-i", "IN", "-o", "OUT", "-k", KEYTXT, "--cmode", "2", "--hmode", "1"]),
           ("e", big, ["-e", "-i", "IN", "-o", "OUT", "-k", KEYTXT, "--cmode", "1", "--hmode", "0"]),
           ("d", fx.valid, ["-d", "-i", "IN", "-o", "OUT", "-k", KEYTXT])]

    def complete(kind, src, outp, wd):
        if not os.path.isfile(outp):
            return False
        if kind == "e":
            return subprocess.run([reftool, "check-enc", src, outp, kh, str(T), str(PROD_S)], stdout=subprocess.PIPE).returncode == 0
        refout = os.path.join(wd, "ref.out")
        r = subprocess.run([reftool, "decrypt", src, kh, str(T), str(PROD_S), refout], stdout=subprocess.PIPE)
        return r.returncode == 0 and open(refout, "rb").read() == open(outp, "rb").read()

    def run_one(job):
        oi, kind, src, tmpl, limit, devfull = job
        wd = os.path.join(root, "j%d_%s" % (oi, "full" if devfull else str(limit)))
        os.makedirs(wd, exist_ok=True)
        try:
            inp = os.path.join(wd, os.path.basename(src))
            shutil.copyfile(src, inp)
            outp = "/dev/full" if devfull else os.path.join(wd, "out.bin")
            argv = [inp if a == "IN" else outp if a == "OUT" else a for a in tmpl]
            pre = [] if limit is None else ["sh", "-c", 'trap "" XFSZ; exec prlimit --fsize=%d:%d "$@"' % (limit, limit), "sh"]
            what = "`%s` with %s" % (" ".join(tmpl), "the output on a device that refuses every write (/dev/full)" if devfull else "every write to a file beyond %s bytes failing (EFBIG)" % limit if limit is not None else "no fault")
            try:
                p = subprocess.run(pre + [exe] + argv, stdout=subprocess.PIPE, stderr=subprocess.PIPE, env=env, cwd=wd, timeout=45, stdin=subprocess.DEVNULL)
            except subprocess.TimeoutExpired:
                return (job, "hang:failed-write:" + kind, what + " did not terminate within 45 s")
            rc, so, se = p.returncode, p.stdout.decode("utf-8", "replace"), p.stderr.decode("utf-8", "replace")
            if rc < 0:
                return (job, "crash:failed-write:" + kind, what + ": killed by signal %d" % -rc)
            if rc == 77 or "AddressSanitizer" in se:
                return (job, "crash:failed-write:" + kind, what + ": AddressSanitizer report")
            done = (not devfull) and complete(kind, inp, outp, wd)
            if rc == 0 and not done:
                return (job, "exit0-after-failed-write:" + kind, what + " exits 0 although the result is not completely there (%s bytes written)" % (os.path.getsize(outp) if os.path.isfile(outp) else "no"))
            if rc != 0 and not (so.strip() or se.strip()):
                return (job, "silent-failure:failed-write", what + ": non-zero exit without any diagnostic")
            return (job, None, "rc=%d complete=%s" % (rc, done))
        finally:
            shutil.rmtree(wd, ignore_errors=True)

    # fault-free sizes (and the sanity check that the limit mechanism itself is harmless when it does not bite)
    sizes = []
    for oi, (kind, src, tmpl) in enumerate(ops):
        wd = os.path.join(root, "probe%d" % oi)
        os.makedirs(wd, exist_ok=True)
        inp, outp = os.path.join(wd, os.path.basename(src)), os.path.join(wd, "out.bin")
        shutil.copyfile(src, inp)
        argv = [inp if a == "IN" else outp if a == "OUT" else a for a in tmpl]
        p = subprocess.run(["sh", "-c", 'trap "" XFSZ; exec prlimit --fsize=1000000:1000000 "$@"', "sh", exe] + argv, stdout=subprocess.PIPE, stderr=subprocess.PIPE, env=env, cwd=wd, timeout=120, stdin=subprocess.DEVNULL)
        if p.returncode != 0 or not complete(kind, inp, outp, wd):
            shutil.rmtree(root, ignore_errors=True)
            return {"io_fault_pass": "the fault-free run under a generous file-size limit did not succeed (rc %d): limits cannot be used here, write-failure points not explored" % p.returncode}, []
        sizes.append(os.path.getsize(outp))
        shutil.rmtree(wd, ignore_errors=True)
    jobs = []
    for oi, (kind, src, tmpl) in enumerate(ops if not only_wrong_key else []):
        full = sizes[oi]
        if full <= 400 or tier == "thorough":
            limits = list(range(0, full, 1 if full <= 400 else 16))
        else:
            limits = sorted(set([0, 1, 9, 10, 47, 48, 127, 128, 129, 4095, 4096, 4097, full - 17, full - 16, full - 1]))
        for n in limits:
            jobs.append((oi, kind, src, tmpl, n, False))
        jobs.append((oi, kind, src, tmpl, None, True))
    # ---- read failures: the k-th read(2) on the input (or, for -e, on the output that is read back for the tag) fails with EIO, once
    # (transient) or from then on (persistent); injected by strace's syscall tampering, for EVERY k up to the number of reads observed
    rjobs, rnote = [], None
    if shutil.which("strace") is None or subprocess.run(["strace", "-o", "/dev/null", "true"], stdout=subprocess.DEVNULL, stderr=subprocess.DEVNULL).returncode != 0:
        rnote = "strace cannot trace here: read-failure points not explored"
    else:
        rops = [("e", fx.f, ["-e", "-i", "IN", "-o", "OUT", "-k", KEYTXT, "--cmode", "2", "--hmode", "1"], "IN", True),
                ("e", big, ["-e", "-i", "IN", "-o", "OUT", "-k", KEYTXT, "--cmode", "1", "--hmode", "0"], "IN", True),
                ("e", big, ["-e", "-i", "IN", "-o", "OUT", "-k", KEYTXT, "--cmode", "1", "--hmode", "2"], "OUT", True),
                ("d", fx.valid, ["-d", "-i", "IN", "-o", "OUT", "-k", KEYTXT], "IN", True),
                ("d", fx.valid, ["-d", "-i", "IN", "-o", "OUT", "-k", WRONG], "IN", False),
                ("v", fx.valid, ["-v", "-i", "IN", "-k", WRONG], "IN", False)]
        for ri, (kind, src, tmpl, which, rightkey) in enumerate(rops):
            if only_wrong_key and rightkey:
                continue
            wd = os.path.join(root, "rprobe%d" % ri)
            os.makedirs(wd, exist_ok=True)
            inp, outp = os.path.join(wd, os.path.basename(src)), os.path.join(wd, "out.bin")
            shutil.copyfile(src, inp)
            argv = [inp if a == "IN" else outp if a == "OUT" else a for a in tmpl]
            log = os.path.join(wd, "tr.log")
            subprocess.run(["strace", "-f", "-o", log, "-P", inp if which == "IN" else outp, "-e", "trace=read", exe] + argv, stdout=subprocess.PIPE, stderr=subprocess.PIPE, env=env, cwd=wd, timeout=120, stdin=subprocess.DEVNULL)
            nreads = sum(1 for l in open(log) if " read(" in l) if os.path.isfile(log) else 0
            shutil.rmtree(wd, ignore_errors=True)
            for k in range(1, nreads + 1):
                for persistent in (False, True):
                    rjobs.append((ri, kind, src, tmpl, which, rightkey, k, persistent))

    def run_read(job):
        ri, kind, src, tmpl, which, rightkey, k, persistent = job
        wd = os.path.join(root, "r%d_%d_%d" % (ri, k, persistent))
        os.makedirs(wd, exist_ok=True)
        try:
            inp, outp = os.path.join(wd, os.path.basename(src)), os.path.join(wd, "out.bin")
            shutil.copyfile(src, inp)
            argv = [inp if a == "IN" else outp if a == "OUT" else a for a in tmpl]
            what = "`%s` with read #%d%s of the %s failing (EIO)" % (" ".join(tmpl).replace(WRONG, "<wrong key>").replace(KEYTXT, "<right key>"), k, " and every later one" if persistent else "", "input" if which == "IN" else "output (read back for the tag)")
            try:
                p = subprocess.run(["strace", "-f", "-o", "/dev/null", "-P", inp if which == "IN" else outp, "-e", "trace=read", "-e", "inject=read:error=EIO:when=%d%s" % (k, "+" if persistent else ""), exe] + argv,
                                   stdout=subprocess.PIPE, stderr=subprocess.PIPE, env=env, cwd=wd, timeout=60, stdin=subprocess.DEVNULL)
            except subprocess.TimeoutExpired:
                return (job, "hang:failed-read:" + kind, what + " did not terminate within 60 s")
            rc, se = p.returncode, p.stderr.decode("utf-8", "replace")
            if rc < 0 or rc == 77 or "AddressSanitizer" in se:
                return (job, "crash:failed-read:" + kind, what + ": " + ("killed by signal %d" % -rc if rc < 0 else "AddressSanitizer report"))
            if rc == 0 and not rightkey:
                return (job, "wrong-key-accepted-after-failed-read:" + kind, what + " exits 0 (wrong key accepted)")
            if rc != 0 and not rightkey and kind == "d" and os.path.isfile(outp) and os.path.getsize(outp) > 0:
                return (job, "wrong-key-wrote-output-after-failed-read", what + " wrote %d bytes" % os.path.getsize(outp))
            if rc == 0 and not complete(kind, inp, outp, wd):
                return (job, "exit0-after-failed-read:" + kind, what + " exits 0 although the result is not completely / correctly there (%s bytes written)" % (os.path.getsize(outp) if os.path.isfile(outp) else "no"))
            return (job, None, "rc=%d" % rc)
        finally:
            shutil.rmtree(wd, ignore_errors=True)

    viol, outcomes, n = [], {}, 0
    with cf.ThreadPoolExecutor(max_workers=c.NCPU) as ex:
        for job, key, detail in ex.map(run_read, rjobs):
            n += 1
            outcomes[key or "holds"] = outcomes.get(key or "holds", 0) + 1
            if key and sum(1 for v in viol if v["key"] == key) < 3:
                viol.append({"key": key, "desc": detail, "replay": {"io_fault": ["read", job[0], job[6], job[7]]}})
    with cf.ThreadPoolExecutor(max_workers=c.NCPU) as ex:
        for job, key, detail in ex.map(run_one, jobs):
            n += 1
            outcomes[key or "holds"] = outcomes.get(key or "holds", 0) + 1
            if key and sum(1 for v in viol if v["key"] == key) < 3:
                viol.append({"key": key, "desc": detail, "replay": {"io_fault": [job[0], job[4], job[5]]}})
    shutil.rmtree(root, ignore_errors=True)
    return {"io_fault_runs": n, "io_fault_outcomes": outcomes, "io_fault_complete_output_sizes": sizes, "io_fault_read_failure_points": len(rjobs), "io_fault_read_note": rnote or "every read(2) index on the input / on the output read back for the tag, transient and persistent EIO (strace syscall tampering); -e, -d with the right key (exit 0 only with the complete correct result) and -d/-v with a wrong key (never exit 0, no output)",
            "io_fault_note": "real binary under RLIMIT_FSIZE = N for every N below the complete output size (100-byte -e and -d: every byte; 5000-byte -e: boundary values, thorough every 16th) and with -o /dev/full; "
                             "oracle: terminates, no crash, exit 0 only with the complete correct result, a diagnostic otherwise"}, viol


def c06_cli(tier):
    """C06 under read failures (post pass of the C06 check): `-d` and `-v` with a WRONG key while the k-th read(2) of the input fails with
    EIO (every k, transient and persistent): never exit 0, never any output. returns (coverage, violations)"""
    exe, reftool = build_tools()
    root = os.path.join("/dev/shm" if os.path.isdir("/dev/shm") else c.BUILD, "wencry-c06cli-%d" % os.getpid())
    shutil.rmtree(root, ignore_errors=True)
    os.makedirs(root)
    try:
        fx = Fixture(os.path.join(root, "fx"), reftool)
        cov, viol = io_fault_pass(exe, reftool, fx, root, tier, only_wrong_key=True)
    finally:
        shutil.rmtree(root, ignore_errors=True)
    return {"cli_read_failure_points": cov.get("io_fault_read_failure_points", 0), "cli_read_failure_note": cov.get("io_fault_read_note", cov.get("io_fault_pass", ""))}, viol


def first_defect(vec):
    mode, inn, out, key, cm, hm, noecho, extra = vec
    if mode in ("none", "e+d", "v+h", "cluster-edv") or mode.startswith("cluster2-"):
        return "mode-" + mode
    if extra in ("unknown", "missingarg"):
        return "extra-" + extra
    if key in ("len23", "nopad", "badsym", "len25", "onepad", "hibyte"):
        return "key-" + key
    if out == "unwritable":
        return "out-unwritable"
    if inn in ("absent", "missing"):
        return "input-" + inn
    if cm in ("5", "127"):
        return "cmode-" + cm
    if hm == "3":
        return "hmode-3"
    if key == "absent":
        return "key-absent"
    if out == "absent":
        return "out-absent"
    return "input-or-key-not-valid"


def vectors(tier):
    base_lines = [
        ("e", "file", "absent", "absent", "absent", "absent", "absent", "none"),
        ("e", "file", "writable", "right", "2", "1", "absent", "none"),
        ("d", "valid", "writable", "right", "absent", "absent", "absent", "none"),
        ("v", "valid", "absent", "right", "absent", "absent", "absent", "none"),
    ]
    seen = []
    S = set()

    def add(v):
        if v[0] == "none" and all(x in ("absent", "none") for x in v[1:]):
            return  # no argument at all = interactive prompt mode, which the property excludes
        if v not in S:
            S.add(v)
            seen.append(v)

    for b in base_lines:
        add(b)
    # every single-dimension deviation from every base line
    for b in base_lines:
        for d, dim in enumerate(DIMS):
            for val in dim:
                v = list(b)
                v[d] = val
                add(tuple(v))
    # every pair of values of every two dimensions, completed from each of the two main base lines
    for b in (base_lines[1], base_lines[2]):
        for d1 in range(len(DIMS)):
            for d2 in range(d1 + 1, len(DIMS)):
                for v1 in DIMS[d1]:
                    for v2 in DIMS[d2]:
                        v = list(b)
                        v[d1] = v1
                        v[d2] = v2
                        add(tuple(v))
    if tier == "thorough":
        # the full product of all value classes (two representatives of the 20 two-letter mode clusters): millions of vectors, so it is
        # never materialised - a lazy sequence, traversed along a fixed permutation (index * P mod N) so that a run cut by the
        # deadline has touched every region of the product instead of only its first modes
        modes = [m for m in MODES if not m.startswith("cluster2-")] + ["cluster2-de", "cluster2-he"]
        return ProductSeq(seen, [modes, INS, OUTS, KEYS, CMODES, HMODES, NS, EXTRAS])
    return seen


class ProductSeq:
    """list-like: a materialised head followed by the lazily decoded full product of the dimensions, in permuted order"""

    def __init__(self, head, dims):
        self.head, self.dims = head, dims
        self.n = 1
        for d in dims:
            self.n *= len(d)
        self.p = 1000003
        import math
        while math.gcd(self.p, self.n) != 1:
            self.p += 2

    def __len__(self):
        return len(self.head) + self.n

    def __getitem__(self, i):
        if i < len(self.head):
            return self.head[i]
        k = ((i - len(self.head)) * self.p) % self.n
        out = []
        for d in reversed(self.dims):
            out.append(d[k % len(d)])
            k //= len(d)
        v = tuple(reversed(out))
        if v[0] == "none" and all(x in ("absent", "none") for x in v[1:]):
            return self.head[0]  # no argument at all = interactive mode (excluded): replaced by a base line
        return v

    def __iter__(self):
        for i in range(len(self)):
            yield self[i]


def run(pid, tier, replay=None):
    t0 = time.time()
    seed = c.seed_from_env()
    level = "exploration"
    rule = ("real binary (ASan build of main.cpp + libraries from the working tree); option vectors = product of value classes "
            "mode(%d) x input(%d) x output(%d) x key(%d) x cmode(%d) x hmode(%d) x no_echo(2) x extra(3): quick = every single deviation from 4 base lines + every pair of values of two dimensions completed from 2 base lines; "
            "thorough = the full product of all value classes; one evaluation = one process run; oracle: no signal/sanitizer report, exit 0 <=> effect confirmed by the reference "
            "(file equals documented format / plaintext restored / tag valid), mandatory outcomes only where the documentation is unambiguous, a non-zero exit prints at least one line that no successful run prints (diagnostic, wording not prescribed); distinct = distinct vectors; "
            "plus the write-failure pass: the same binary with every write beyond N bytes failing, for every N below the complete output size, and with -o /dev/full") % tuple(len(d) for d in DIMS[:6])
    assumptions = ["interactive prompt mode (argc == 1) excluded, as the property says", "production chunk size (16 MiB): files are single-chunk; multi-chunk behaviour is C01/C02's subject",
                   "random key and IV seed are outputs: the printed key is parsed and the IV fields are read back from the written file", "reference = tools/src/reftool.cpp over ref/ref.hpp (libcrypto)"]
    try:
        exe, reftool = build_tools()
    except c.CannotDecide as e:
        c.log(str(e)[:3000])
        return c.finish(pid, tier, level, {"evaluations": 0, "distinct_nontrivial": 0, "rule": rule, "samples": []}, [], assumptions, t0, seed, False, cannot_decide=str(e)[:300])
    workroot = os.path.join("/dev/shm" if os.path.isdir("/dev/shm") else c.BUILD, "wencry-c17-%d" % os.getpid())
    shutil.rmtree(workroot, ignore_errors=True)
    os.makedirs(workroot)
    try:
        fx = Fixture(os.path.join(workroot, "fx"), reftool)
        if replay:
            rec = json.load(open(replay))
            r = rec["replay"]
            if "io_fault" in r:  # the write-failure pass is small and deterministic: re-run it twice as a whole, the recorded key must come back
                found = []
                for _ in range(2):
                    _, fv = io_fault_pass(exe, reftool, fx, workroot, tier or "quick")
                    found.append(sorted(v["key"] for v in fv if v["key"] == rec.get("key")))
                print(json.dumps({"key": rec.get("key"), "verdict": "violation" if found[0] else "holds", "deterministic": bool(found[0]) == bool(found[1])}))
                if bool(found[0]) != bool(found[1]):
                    return 3
                if found[0]:
                    print("VIOLATION property=%s replay=%s" % (pid, replay))
                    return 1
                return 0
            vec = tuple(r["vector"])
            if r.get("diag"):  # diagnostic oracle: needs the lines successful runs print - the base lines and every single deviation from them
                vs = [v for v in vectors("quick")][:400]
                found = []
                for rep in range(2):
                    RUNLOG.clear()
                    GOOD_LINES.clear()
                    for k, v in enumerate(vs + [vec]):
                        run_vector(exe, reftool, fx, v, k, workroot)
                    found.append(len(vs) in undiagnosed_failures(RUNLOG))
                print(json.dumps({"vector": dict(zip(DIMNAMES, vec)), "verdict": "failure-without-diagnostic" if found[0] else "holds", "deterministic": found[0] == found[1]}))
                if found[0] != found[1]:
                    return 3
                if found[0]:
                    print("VIOLATION property=%s replay=%s" % (pid, replay))
                    return 1
                return 0
            res = [run_vector(exe, reftool, fx, vec, k, workroot) for k in range(2)]
            print(json.dumps({"vector": dict(zip(DIMNAMES, vec)), "verdict": res[0][0] or "holds", "detail": res[0][1], "deterministic": res[0][0] == res[1][0]}))
            if res[0][0] != res[1][0]:
                return 3
            if res[0][0]:
                print("VIOLATION property=%s replay=%s" % (pid, replay))
                return 1
            return 0
        vecs = vectors(tier)
        deadline = t0 + float(os.environ.get("VERIF_DEADLINE_S", "2400" if tier == "thorough" else "900"))
        viol, samples, outcomes = [], [], {}
        done = 0
        capped = False

        def work(iv):
            i, v = iv
            if time.time() > deadline:
                return (i, v, ("__skipped__", "", []))
            return (i, v, run_vector(exe, reftool, fx, v, i, workroot))

        def results():
            # bounded window of outstanding runs (the full product has hundreds of thousands of vectors)
            import collections
            with cf.ThreadPoolExecutor(max_workers=c.NCPU) as ex:
                pending = collections.deque()
                for item in enumerate(vecs):
                    if time.time() > deadline:  # stop submitting: the rest of a multi-million product is not even enumerated
                        yield (item[0], item[1], ("__skipped__", "", []))
                        break
                    pending.append(ex.submit(work, item))
                    if len(pending) >= 4 * c.NCPU:
                        yield pending.popleft().result()
                while pending:
                    yield pending.popleft().result()

        if True:
            for i, v, (key, detail, tail) in results():
                if key == "__skipped__":
                    capped = True
                    continue
                done += 1
                outcomes[key or "holds"] = outcomes.get(key or "holds", 0) + 1
                if key:
                    viol.append({"key": key, "desc": detail + " | argv: " + " ".join(tail)[:300], "replay": {"vector": list(v)}})
                elif len(samples) < 8 and i % (len(vecs) // 8 + 1) == 0:
                    samples.append({"vector": dict(zip(DIMNAMES, v)), "argv": " ".join(tail)[:200], "result": detail})
        for i in undiagnosed_failures(RUNLOG):
            outcomes["failure-without-diagnostic"] = outcomes.get("failure-without-diagnostic", 0) + 1
            viol.append({"key": "failure-without-diagnostic", "desc": "non-zero exit, but every line printed is one that successful runs print too: no diagnostic (%s)" % " ".join("%s=%s" % kv for kv in zip(DIMNAMES, vecs[i])),
                         "replay": {"vector": list(vecs[i]), "diag": 1}})
        cov = {"evaluations": done, "distinct_nontrivial": len(set(vecs)) if isinstance(vecs, list) else (done if capped else len(vecs)), "rule": rule, "samples": samples, "outcomes": outcomes, "caps_hit": capped}
        fcov, fviol = io_fault_pass(exe, reftool, fx, workroot, tier)
        cov.update(fcov)
        cov["evaluations"] += fcov.get("io_fault_runs", 0)
        viol.extend(fviol)
        return c.finish(pid, tier, level, cov, viol, assumptions, t0, seed, exhaustive=not capped)
    finally:
        shutil.rmtree(workroot, ignore_errors=True)
