"""C13, second write history: the system calls of the real binary (strace), not stdio's view of them.
For each history every prefix of the writes to the output file and every byte prefix inside every write is
materialised and given to the real `Wencry -v` and `Wencry -d`; only the complete file may be accepted."""
import concurrent.futures as cf
import os
import re
import shutil
import subprocess

from . import common as c
from . import cli

_ESC = re.compile(r'\\x([0-9a-f]{2})')


def _unescape(s):
    return bytes(int(h, 16) for h in _ESC.findall(s))


def trace_history(exe, workdir, plain, cm, hm, pre=None):
    """returns (list of (offset, bytes) writes and (None, length) truncations) for the output file, final file bytes, bytes the
    output path held before the run (b"" for a fresh path). pre = (cipher mode, plaintext) of an earlier complete encryption that
    already lies at the output path (the ordinary edit / re-encrypt cycle)."""
    inp = os.path.join(workdir, "in.bin")
    out = os.path.join(workdir, "out.wenc")
    before = b""
    if pre is not None:
        open(inp, "wb").write(pre[1])
        r0 = subprocess.run([exe, "-e", "-i", inp, "-o", out, "-k", cli.KEYTXT, "--cmode", str(pre[0]), "--hmode", str(hm)], stdout=subprocess.DEVNULL, stderr=subprocess.DEVNULL, timeout=120)
        if r0.returncode != 0:
            return None, None, None
        before = open(out, "rb").read()
    open(inp, "wb").write(plain)
    log = os.path.join(workdir, "strace.log")
    r = subprocess.run(["strace", "-f", "-e", "trace=openat,read,write,pwrite64,lseek,close,ftruncate,truncate", "-xx", "-s", "1000000", "-o", log,
                        exe, "-e", "-i", inp, "-o", out, "-k", cli.KEYTXT, "--cmode", str(cm), "--hmode", str(hm)],
                       stdout=subprocess.DEVNULL, stderr=subprocess.DEVNULL, timeout=120)
    if r.returncode != 0:
        return None, None, None
    fd = None
    pos = 0
    writes = []
    outhex = "".join("\\x%02x" % b for b in out.encode())
    for line in open(log, errors="replace"):
        line = re.sub(r"^\d+\s+", "", line)
        if line.startswith("openat(") and outhex in line:
            m = re.search(r"=\s*(\d+)\s*$", line)
            if m:
                fd, pos = int(m.group(1)), 0
                if "O_TRUNC" in line:
                    writes.append((None, 0))
            continue
        if line.startswith("truncate(") and outhex in line:
            m = re.search(r",\s*(\d+)\)\s*=\s*0", line)
            if m:
                writes.append((None, int(m.group(1))))
            continue
        if fd is None:
            continue
        if line.startswith("write(%d," % fd):
            m = re.match(r'write\(\d+, "((?:\\x[0-9a-f]{2})*)", \d+\)\s*=\s*(\d+)', line)
            if m:
                data = _unescape(m.group(1))[:int(m.group(2))]
                writes.append((pos, data))
                pos += len(data)
        elif line.startswith("read(%d," % fd):
            m = re.search(r"=\s*(\d+)\s*$", line)
            if m:
                pos += int(m.group(1))
        elif line.startswith("pwrite64(%d," % fd):
            m = re.match(r'pwrite64\(\d+, "((?:\\x[0-9a-f]{2})*)", \d+, (\d+)\)\s*=\s*(\d+)', line)
            if m:
                writes.append((int(m.group(2)), _unescape(m.group(1))[:int(m.group(3))]))
        elif line.startswith("ftruncate(%d," % fd):
            m = re.match(r"ftruncate\(\d+,\s*(\d+)\)\s*=\s*0", line)
            if m:
                writes.append((None, int(m.group(1))))
        elif line.startswith("lseek(%d," % fd):
            m = re.search(r"=\s*(\d+)\s*$", line)
            if m:
                pos = int(m.group(1))
        elif line.startswith("close(%d)" % fd):
            fd = None
    return writes, open(out, "rb").read(), before


def states_of(writes, before=b""):
    cur = bytearray(before)
    seen = {bytes(before)}
    out = [(bytes(before), -1, 0)]
    for wi, (off, data) in enumerate(writes):
        if off is None:  # truncation to `data` bytes (O_TRUNC at open, ftruncate)
            del cur[data:]
            if len(cur) < data:
                cur.extend(b"\0" * (data - len(cur)))
            b = bytes(cur)
            if b not in seen:
                seen.add(b)
                out.append((b, wi, 0))
            continue
        for k in range(1, len(data) + 1):
            st = bytearray(cur)
            if off + k > len(st):
                st.extend(b"\0" * (off + k - len(st)))
            st[off:off + k] = data[:k]
            b = bytes(st)
            if b not in seen:
                seen.add(b)
                out.append((b, wi, k))
        if off + len(data) > len(cur):
            cur.extend(b"\0" * (off + len(data) - len(cur)))
        cur[off:off + len(data)] = data
    return out, bytes(cur)


def run(tier):
    """returns (coverage-dict, violations)"""
    if shutil.which("strace") is None:
        return {"strace_pass": "strace not available"}, []
    probe = subprocess.run(["strace", "-o", "/dev/null", "true"], stdout=subprocess.DEVNULL, stderr=subprocess.DEVNULL)
    if probe.returncode != 0:
        return {"strace_pass": "strace cannot trace in this environment (ptrace not permitted?): syscall-level history not explored, stdio-level history stands"}, []
    exe = c.build_exe("Wencry", [], defs=[], sanitize="none", libs=[], with_sched=False, main_cpp=True)
    root = os.path.join("/dev/shm" if os.path.isdir("/dev/shm") else c.BUILD, "wencry-c13s-%d" % os.getpid())
    shutil.rmtree(root, ignore_errors=True)
    os.makedirs(root)
    viol = []
    untraced = []
    nstates = nhist = nruns = 0
    samples = []
    try:
        hists = []
        if tier == "thorough":
            for cm in range(5):
                for hm in range(3):
                    for n in (0, 37, 100):
                        hists.append((cm, hm, n))
        else:
            hists = [(cm, cm % 3, 37) for cm in range(5)]
        # the output path already holds a complete earlier encryption under the same key (another cipher mode, a longer text)
        hists += [(cm, hm, n, (cm + 1) % 5) for (cm, hm, n) in (hists[:3] if tier != "thorough" else hists[::3])]
        env = dict(os.environ)

        def one(h):
            cm, hm, n = h[:3]
            wd = os.path.join(root, "h" + "_".join(map(str, h)))
            os.makedirs(wd)
            plain = bytes((i * 7 + 1) % 256 for i in range(n))
            pre = (h[3], bytes((i * 5 + 3) % 256 for i in range(n + 150))) if len(h) > 3 else None
            writes, final, before = trace_history(exe, wd, plain, cm, hm, pre)
            if writes is None:
                return h, None, 0, 0, []
            sts, replayed = states_of(writes, before)
            bad = []
            if replayed != final:
                bad.append(("strace-log-mismatch", "replaying the traced writes does not reproduce the output file"))
            runs = 0
            for (b, wi, k) in sts:
                if b == final or (pre is not None and b == before):  # the untouched earlier file is a complete, authentic file of its own
                    continue
                p = os.path.join(wd, "state.wenc")
                open(p, "wb").write(b)
                for op in ("-v", "-d"):
                    args = [exe, op, "-i", p, "-k", cli.KEYTXT] + (["-o", os.path.join(wd, "dec.out")] if op == "-d" else [])
                    r = subprocess.run(args, stdout=subprocess.DEVNULL, stderr=subprocess.DEVNULL, env=env, timeout=60)
                    runs += 1
                    if r.returncode == 0:
                        off = (writes[wi][0] or 0) if wi >= 0 else 0
                        where = "header-write" if off < 10 else "tag-write" if off < 48 else "body-write"
                        bad.append(("partial-file-accepted:" + where, "syscall history (cmode %d, hmode %d, %d bytes%s): crash after %d of %d bytes of write #%d at offset %d leaves a %d-byte file that `Wencry %s` accepts" % (cm, hm, n, ", output path held an earlier encryption" if pre else "", k, len(writes[wi][1]) if (wi >= 0 and writes[wi][0] is not None) else 0, wi, off, len(b), op)))
            # the complete file must be accepted
            p = os.path.join(wd, "final.wenc")
            open(p, "wb").write(final)
            r = subprocess.run([exe, "-v", "-i", p, "-k", cli.KEYTXT], stdout=subprocess.DEVNULL, stderr=subprocess.DEVNULL, timeout=60)
            if r.returncode != 0:
                bad.append(("complete-file-rejected", "the completely written file does not verify"))
            shutil.rmtree(wd, ignore_errors=True)
            return h, [(off, len(d)) if off is not None else ("truncate", d) for off, d in writes], len(sts), runs, bad

        with cf.ThreadPoolExecutor(max_workers=c.NCPU) as ex:
            for h, wl, ns, runs, bad in ex.map(one, hists):
                if wl is None:  # the traced encryption did not exit 0: an environment problem or C01/C17's subject, not a crash-consistency verdict
                    untraced.append(list(h))
                    continue
                nhist += 1
                nstates += ns
                nruns += runs
                if len(samples) < 3:
                    samples.append({"history": {"cmode": h[0], "hmode": h[1], "bytes": h[2], "output_path_held_earlier_encryption_in_cmode": (h[3] if len(h) > 3 else None)}, "writes_offset_len": wl, "crash_states": ns})
                for key, desc in bad[:3]:
                    viol.append({"key": key, "desc": desc, "replay": {"strace_history": list(h)}})
    finally:
        shutil.rmtree(root, ignore_errors=True)
    return {"strace_histories_not_traced": untraced, "strace_histories": nhist, "strace_crash_states": nstates, "strace_verify_decrypt_runs": nruns, "strace_samples": samples,
            "strace_note": "system-call write history of the real binary (production buffer sizes, T=4), every write prefix x byte prefix given to the real Wencry -v / -d"}, viol
