"""C03 / C04 / C14: bounded exhaustive exploration of the pipeline's interleavings (harness/pipe_explore.cpp)."""
import array
import os
import time

from . import common as c

TITLE = {
    "C03": "output independent of scheduling; each block transformed exactly once",
    "C04": "pipeline terminates under every schedule",
    "C14": "chunk buffers handed over exclusively",
}


INSTR_SOURCES = ("kernel/multi_aes/aes/aesmode.cpp", "kernel/multi_aes/aes/aes.cpp")


def cfgs_quick():
    """(bufsz, sanitize, args, nshards). bound = preemption bound (context switches at blocking points are free,
    CHESS-style); delay=1 = delay bounding (every departure from the canonical scheduler costs one)."""
    L = []
    # malformed decrypt bodies (a validly tagged file need not come from encryption): empty body, partial trailing block
    for ln in (0, 9, 41, 73):
        L.append((2, "none", dict(T=1, len=ln, enc=0, rawdec=1, bound=3), 1))
        L.append((2, "none", dict(T=2, len=ln, enc=0, rawdec=1, bound=2 if ln < 41 else 1), 1))
    for enc in (1, 0):
        for ln in (0, 15, 16, 31, 32, 33, 64, 65):
            L.append((2, "none", dict(T=1, len=ln, enc=enc, bound=3), 1))
        for ln in (0, 16, 31, 40, 63):  # padded to 16, 32 (=1 chunk), 32, 48, 64 (=2 full chunks)
            L.append((2, "none", dict(T=2, len=ln, enc=enc, bound=2), 2 if ln >= 32 else 1))
        # three chunks on two buffers: buffer 0 is reused
        L.append((2, "none", dict(T=2, len=70, enc=enc, bound=1), 1))  # (all interleavings of this one: state-matching below)
        L.append((2, "none", dict(T=2, len=64, enc=enc, bound=1), 1))
        for ln in (16, 40, 100):
            L.append((2, "none", dict(T=3, len=ln, enc=enc, bound=2, delay=1), 1))
        L.append((2, "none", dict(T=3, len=16, enc=enc, bound=1), 1))
        L.append((2, "none", dict(T=4, len=130, enc=enc, bound=1, delay=1), 1))
        for ln in (0, 15, 16):
            L.append((1, "none", dict(T=2, len=ln, enc=enc, bound=2), 1))
        L.append((1, "none", dict(T=2, len=40, enc=enc, bound=1), 1))
        # state-matching search: NO preemption bound; an execution stops branching where the canonical implementation state
        # (shared memory, modelled sync state, every thread's return-address chain, stream/file/monitor state) was expanded before
        # (maxexec: a broken tree can have a far larger state space; the cap keeps the quick tier quick, violations are found early)
        for ln in (16, 40, 70):
            L.append((2, "none", dict(T=2, len=ln, enc=enc, stateful=1, maxexec=40000), 1))
        L.append((2, "none", dict(T=2, len=40, enc=enc, stateful=1, spurious=1, maxexec=40000), 1))
        L.append((2, "none", dict(T=3, len=40, enc=enc, stateful=1, maxexec=120000), 1))
        L.append((1, "none", dict(T=2, len=40, enc=enc, stateful=1, maxexec=40000), 1))
        # POSIX allows condition waits to return spuriously: one injected spurious wake-up per execution (counts as a deviation)
        for ln in (40, 70):
            L.append((2, "none", dict(T=2, len=ln, enc=enc, bound=1, spurious=1), 1))
        L.append((2, "none", dict(T=3, len=100, enc=enc, bound=1, delay=1, spurious=1), 1))
        # memory oracle: same harness under AddressSanitizer (fork is ~5x dearer, so shallower)
        for ln in (31, 40):
            L.append((2, "address", dict(T=2, len=ln, enc=enc, bound=1), 1))
        L.append((2, "address", dict(T=1, len=32, enc=enc, bound=2), 1))
        # end to end through runcrypt with the real AES streams, compared with the reference file
        for cm in (1, 2):
            L.append((2, "none", dict(T=2, len=40, enc=enc, bound=1, scenario="e2e", cmode=cm, hmode=cm), 1))
        # end to end on the chunk-boundary lengths (padded length = exactly one / two chunks), incl. the single-worker pipeline
        for (T, ln) in ((1, 31), (1, 63), (2, 31), (2, 63)):
            L.append((2, "none", dict(T=T, len=ln, enc=enc, bound=1, scenario="e2e", cmode=3, hmode=2), 1))
        # end to end with the size argument given as 0 ("unknown": what the command line passes for a FIFO); three chunks on two / three workers
        if enc:
            L.append((2, "none", dict(T=2, len=70, enc=1, bound=1, scenario="e2e", cmode=1, hmode=0, hint0=1), 1))
            L.append((2, "none", dict(T=3, len=70, enc=1, bound=1, delay=1, scenario="e2e", cmode=2, hmode=0, hint0=1), 1))
            # the same for the harness streams (ownership log): only differs from the plain run on a tree whose pipeline takes a size estimate
            L.append((2, "none", dict(T=2, len=70, enc=1, bound=1, hint0=1), 1))
        # the same end-to-end run with scheduling points INSIDE the real stream code (function entry/exit callbacks):
        # two workers interleaved within runcry()/runaes_128bit(); catches state shared between the per-worker streams
        for cm in (0, 1, 2, 3, 4):
            L.append((2, "none", dict(T=2, len=40, enc=enc, bound=1, scenario="e2e", cmode=cm, hmode=0, instr=1), 1))
    return L


def cfgs_thorough():
    L = []
    for enc in (1, 0):
        for ln in (0, 1, 15, 16, 17, 31):
            L.append((2, "none", dict(T=1, len=ln, enc=enc, sleep=1), 1))   # all interleavings, no bound (sleep sets over access footprints)
        for ln in (0, 15, 16, 31, 32, 33, 47, 48, 63, 64, 65, 96, 97):
            L.append((2, "none", dict(T=1, len=ln, enc=enc, bound=5), 1))
        for ln in (0, 15, 16, 31, 32, 40, 47, 48, 63):
            L.append((2, "none", dict(T=2, len=ln, enc=enc, bound=3), 4))
        # unbounded for two workers: pad-only input, one-block chunks (6.3 M executions, ~290 distinct states, 12 min on 16 cores when measured)
        L.append((1, "none", dict(T=2, len=0, enc=enc, sleep=1), 16))
        for ln in (64, 70, 95, 96, 100):
            L.append((2, "none", dict(T=2, len=ln, enc=enc, bound=2), 4))
        for ln in (16, 40):
            L.append((2, "none", dict(T=2, len=ln, enc=enc, bound=2, spurious=1), 2))
        for ln in (0, 16, 40, 64, 100, 130):
            L.append((2, "none", dict(T=3, len=ln, enc=enc, bound=1), 1))
        for ln in (16, 40):
            L.append((2, "none", dict(T=3, len=ln, enc=enc, bound=2), 8))
        for ln in (70, 100, 130):
            L.append((2, "none", dict(T=3, len=ln, enc=enc, bound=3, delay=1), 4))
        for ln in (16, 70, 130, 170):
            L.append((2, "none", dict(T=4, len=ln, enc=enc, bound=1), 2))
        # state-matching search (no bound), see cfgs_quick
        for ln in (0, 15, 16, 31, 32, 40, 63, 64, 70, 96, 100, 130):
            L.append((2, "none", dict(T=2, len=ln, enc=enc, stateful=1), 1))
        for ln in (0, 16, 40, 48):
            L.append((1, "none", dict(T=2, len=ln, enc=enc, stateful=1), 1))
            L.append((2, "none", dict(T=2, len=ln, enc=enc, stateful=1, spurious=1), 1))
        for ln in (16, 40, 70, 100):
            L.append((2, "none", dict(T=3, len=ln, enc=enc, stateful=1), 1))
        L.append((2, "none", dict(T=3, len=40, enc=enc, stateful=1, spurious=1), 1))
        L.append((2, "none", dict(T=4, len=70, enc=enc, stateful=1), 1))
        for ln in (0, 15, 16, 17, 32, 40, 48):
            L.append((1, "none", dict(T=2, len=ln, enc=enc, bound=3), 2))
        for ln in (16, 33, 50):
            L.append((3, "none", dict(T=2, len=ln, enc=enc, bound=2), 1))
        for ln in (0, 16, 31, 32, 40, 64):
            L.append((2, "address", dict(T=2, len=ln, enc=enc, bound=1), 1))
        for ln in (40, 100):
            L.append((2, "address", dict(T=3, len=ln, enc=enc, bound=1), 4))
        for cm in (0, 1, 2, 3, 4):
            for ln in (16, 40, 64):
                L.append((2, "none", dict(T=2, len=ln, enc=enc, bound=1, scenario="e2e", cmode=cm, hmode=cm % 3), 1))
        L.append((2, "none", dict(T=3, len=70, enc=enc, bound=1, scenario="e2e", cmode=1, hmode=2), 2))
    return L


BUFFER_FUNCS = ("iobuffer::load_buffer", "iobuffer::export_buffer", "iobuffer::get_entry", "iobuffer::get_size", "::runcry", "ChainEnc", "ChainDec")


STREAM_FUNCS = ("::runcry", "runaes_128bit", "AesCTR", "AesCBC", "AesCFB", "AesOFB", "AesECB", "Aesmode::", "aeshandle", "encryaes", "decryaes", "keyhandle")


def tsan_aux(tier, which="pipe"):
    """Auxiliary free-running ThreadSanitizer pass (sampling; never counted as exhaustive). Returns (info, violations).
    which="pipe": toy streams, reports on chunk-buffer state belong to C14; which="streams": the real AES stream objects,
    reports inside the stream code belong to C03 (workers must not share anything through their streams)."""
    import re
    import subprocess
    name = "tsan_pipe" if which == "pipe" else "tsan_streams"
    exe = c.build_exe(name, ["harness/%s.cpp" % name], defs=["-DWENCRY_VERIF_BUF_SZ=2", "-DWENCRY_VERIF_HBUF_SZ=2"], sanitize="thread", with_sched=False, libs=[],
                      repo_sources=["kernel/multi_aes/multicry.cpp", "kernel/multi_aes/multi_buffergroup.cpp", "kernel/multi_aes/aes/aes.cpp", "kernel/multi_aes/aes/aesmode.cpp"])
    env = dict(os.environ)
    env["TSAN_OPTIONS"] = "halt_on_error=0:report_signal_unsafe=0:exitcode=0:history_size=4"
    runs = (600 if tier == "thorough" else 150) if which == "pipe" else (200 if tier == "thorough" else 40)
    try:
        p = subprocess.run([exe, "runs=%d" % runs], stdout=subprocess.PIPE, stderr=subprocess.PIPE, text=True, env=env, timeout=900)
    except subprocess.TimeoutExpired:
        return {"tsan_%s" % which: "timed out (a free-running hang is C04's subject)"}, []
    if "ThreadSanitizer" not in p.stderr and p.returncode != 0:
        return {"tsan_%s" % which: "could not run (rc=%d): %s" % (p.returncode, p.stderr[-200:])}, []
    reports = p.stderr.split("WARNING: ThreadSanitizer: data race")[1:]
    ignored, viol = {}, []
    wanted = BUFFER_FUNCS if which == "pipe" else STREAM_FUNCS
    for r in reports:
        stacks = re.split(r"\n\s*\n", r)
        tops = []
        for st in stacks[:2]:
            fr = [re.sub(r"\(.*", "", l.split(None, 1)[1]).strip() if len(l.split(None, 1)) > 1 else "" for l in st.splitlines() if re.match(r"\s+#\d+ ", l)]
            tops.append([f for f in fr if f][:4])
        flat = [f for t in tops for f in t]
        k = "~".join(t[0].split("(")[0] if t else "?" for t in tops)
        if which == "pipe" and any(any(b in f for b in wanted) for f in flat):
            viol.append({"key": "tsan-race:" + k, "desc": "free-running ThreadSanitizer reports a data race on chunk-buffer state that the hooked exploration should also see: " + " / ".join(" < ".join(t[:3]) for t in tops),
                         "replay": {"harness": name, "args": "runs=%d" % runs, "note": "sampling: re-run the auxiliary pass"}, "prop": "C14", "confirmed": True})
        elif which == "streams" and all(any(b in f for b in wanted) for f in [t[0] for t in tops if t]) and not any(any(b in f for b in ("iobuffer::", "bufferctrl::")) for f in [t[0] for t in tops if t]):
            viol.append({"key": "tsan-race-in-stream-code", "desc": "free-running ThreadSanitizer: two workers race inside the cipher-stream code (streams are supposed to share nothing), so the output depends on scheduling: " + " / ".join(" < ".join(t[:3]) for t in tops),
                         "replay": {"harness": name, "args": "runs=%d" % runs, "note": "sampling: re-run the auxiliary pass"}, "prop": "C03", "confirmed": True})
        else:
            ignored[k] = ignored.get(k, 0) + 1
    m = re.search(r'"pipeline_runs":(\d+)', p.stdout)
    mm = re.search(r'"roundtrip_mismatches":(\d+)', p.stdout)
    pre = "tsan_" if which == "pipe" else "tsan_streams_"
    info = {pre + "free_running_pipeline_runs": int(m.group(1)) if m else 0, pre + "reports_relevant": len(viol), pre + "reports_ignored": ignored,
            pre + "note": "auxiliary sampling pass (never counted as exhaustive); reports on bufferctrl::state (un-locked cmpstate vs set_update) are not accesses to a chunk buffer"}
    if which == "streams" and mm and int(mm.group(1)) > 0:
        viol.append({"key": "free-running-roundtrip-mismatch", "desc": "%s of the free-running real-stream round trips did not restore the plaintext" % mm.group(1),
                     "replay": {"harness": name, "args": "runs=%d" % runs, "note": "sampling"}, "prop": "C03", "confirmed": True})
    return info, viol


# modelled besides the pthread mutex/condvar/create/join set: pthread_once (std::call_once) and libstdc++'s futex-word waits
# (__atomic_futex_unsigned_base::_M_futex_wait_until/_M_futex_notify_all = std::future/promise/packaged_task/async), see sched/vsched.c
UNMODELLED = ("pthread_rwlock", "pthread_spin", "pthread_barrier", "sem_wait", "sem_post", "sem_timedwait", "__atomic_wait", "__atomic_notify", "SYS_futex",
              "pthread_mutex_timedlock", "pthread_mutex_clocklock", "_M_wait", "__platform_wait", "__atomic_semaphore", "_M_acquire", "counting_semaphore", "latch")


def unmodelled_sync_primitives(exe_path):
    """Symbol scan of the pipeline's own objects: the scheduler owns pthread_create/join, mutex lock/trylock/unlock and condvar
    wait/timedwait/clockwait/signal/broadcast. Anything else that can block or publish (rwlocks, spinlocks, barriers, semaphores,
    C++20 atomic wait/notify, call_once) would run outside its control."""
    import glob
    import subprocess
    d = os.path.dirname(exe_path)
    objdir = os.path.join(c.BUILD, "obj", os.path.basename(d).rsplit("-", 1)[0])
    found = set()
    for o in glob.glob(os.path.join(objdir, "kernel_multi_aes_multi*.o")):
        r = subprocess.run(["nm", "-u", "-C", o], stdout=subprocess.PIPE, text=True)
        for line in r.stdout.splitlines():
            for u in UNMODELLED:
                if u in line:
                    found.add(line.strip().split(" ", 1)[-1][:60])
    return sorted(found)


def run(pid, tier, replay=None):
    t0 = time.time()
    seed = c.seed_from_env()
    deadline_s = float(os.environ.get("VERIF_DEADLINE_S", "2400" if tier == "thorough" else "420"))
    try:
        exes = {}

        def exe(bufsz, san, instr=False):
            k = (bufsz, san, instr)
            if k not in exes:
                exes[k] = c.build_exe("pipe_explore", ["harness/pipe_explore.cpp"],
                                      defs=["-DWENCRY_VERIF_BUF_SZ=%d" % bufsz, "-DWENCRY_VERIF_HBUF_SZ=2"], libs=["-lcrypto"], sanitize=san,
                                      instrument_sources=INSTR_SOURCES if instr else ())
            return exes[k]

        if replay:
            return do_replay(pid, replay, exe)
        unseen = unmodelled_sync_primitives(exe(2, "none"))
        if unseen:
            raise c.CannotDecide("the pipeline objects use synchronisation the controlled scheduler does not model (%s): interleavings would not be under control" % ", ".join(unseen))
        plan = cfgs_thorough() if tier == "thorough" else cfgs_quick()
        tmpd = os.path.join(c.BUILD, "tmp", "%s-%d" % (pid, os.getpid()))
        os.makedirs(tmpd, exist_ok=True)
        jobs, meta = [], []
        until = int(t0 + deadline_s * 0.9)  # the harness stops by itself (and reports what it covered) before the driver would kill it
        for ci, (bufsz, san, args, nsh) in enumerate(plan):
            for sh in range(nsh):
                hf = os.path.join(tmpd, "h%d_%d.bin" % (ci, sh))
                argv = [exe(bufsz, san, bool(args.get("instr")))] + ["%s=%s" % kv for kv in args.items()] + ["shard=%d" % sh, "nshards=%d" % nsh, "hashout=" + hf, "until=%d" % until]
                jobs.append(argv)
                meta.append((ci, hf))
        # cheapest first: everything that can complete does; the dearest configurations are the ones the deadline cuts
        def cost(i):
            bufsz, san, args, nsh = plan[meta[i][0]]
            return ((args.get("T", 1) - 1) * 10 + 4 if args.get("stateful") else args.get("T", 1) * 10 + args.get("bound", 9) + (50 if args.get("sleep") and args.get("T", 1) > 1 else 5 if args.get("sleep") else 0) + (3 if san == "address" else 0), args.get("len", 0))
        # quick tier: everything completes well inside the deadline, so the dearest jobs start first (shortest makespan)
        order = sorted(range(len(jobs)), key=cost, reverse=(tier != "thorough"))
        res = c.run_jobs([jobs[i] for i in order], deadline=t0 + deadline_s)
    except c.CannotDecide as e:
        c.log(str(e))
        return c.finish(pid, tier, "model_checking", {"evaluations": 0, "distinct_nontrivial": 0, "states": 0, "transitions": 0, "traces_validated_against_impl": 0, "samples": []}, [], [], t0, seed, False, cannot_decide=str(e)[:300])
    agg = c.Agg()
    agg.add(res)
    aux = {}
    if pid in ("C14", "C03"):
        try:
            aux, tv = tsan_aux(tier, "pipe" if pid == "C14" else "streams")
            agg.viol.extend(tv)
        except c.CannotDecide as e:
            aux = {"tsan": "not built: " + str(e)[:120]}
    # distinct observable states: union of the per-shard hash files, per configuration
    states = 0
    per_cfg = {}
    for (ci, hf) in meta:
        s = per_cfg.setdefault(ci, set())
        if os.path.exists(hf):
            a = array.array("Q")
            with open(hf, "rb") as f:
                a.frombytes(f.read())
            s.update(a)
            os.unlink(hf)
    states = sum(len(s) for s in per_cfg.values())
    try:
        os.rmdir(tmpd)
    except OSError:
        pass
    cannot = None
    if agg.failed:
        bad = [(a, rc, err) for (a, rc, err) in agg.failed if rc != -999]
        if bad:
            cannot = "harness process failed: rc=%s %s ... %s" % (bad[0][1], " ".join(bad[0][0][1:6]), bad[0][2][-300:].replace("\n", " "))
    if agg.flags.get("hooks_seen", True) is False:
        cannot = "no WENCRY_VERIF_POINT event reached the harness: the guarded hooks in multi_buffergroup.cpp are gone or no longer compiled in, the ownership monitor would be blind"
    viol_all = agg.viol
    mine = [v for v in viol_all if v.get("prop") == pid]
    others = sorted(set("%s/%s" % (v.get("prop"), v.get("key")) for v in viol_all if v.get("prop") != pid))
    for o in others:
        print("NOTE: this exploration also saw a violation that belongs to another property: %s (run that property's check)" % o)
    if agg.flags.get("abstraction_deterministic", True) is False:
        print("NOTE: the state abstraction was NOT deterministic on this tree (successor mismatches): the state-matching configurations are not claimed; the bounded searches stand on their own")
    if agg.flags.get("no_futex_words", True) is False:
        # futures/promises publish through atomics the happens-before monitor cannot see (only their futex waits, once routines and
        # thread joins are edges): a happens-before race alone is then not claimed unless some explored schedule also shows a literal
        # consequence (wrong output, wrong chunk assignment, literal overlap, deadlock)
        literal = [v for v in viol_all if not (v.get("prop") == "C14" and v.get("key") == "hb-race")]
        if not literal and any(v.get("key") == "hb-race" for v in mine):
            print("NOTE: happens-before races were reported on a tree that synchronises through std::future/promise; no explored schedule shows a literal consequence, so they are not claimed (atomic publication is invisible to the monitor)")
            mine = [v for v in mine if v.get("key") != "hb-race"]
    unconfirmed = [v for v in mine if not v.get("confirmed", True)]
    if unconfirmed:
        cannot = "a violation did not replay deterministically: " + unconfirmed[0]["desc"][:200]
        mine = [v for v in mine if v.get("confirmed", True)]
    capped = agg.cov.get("capped", 0) > 0 or any(rc == -999 for (_, rc, _) in agg.failed)
    infos = sorted(agg.info, key=lambda r: r.get("config", ""))
    cfgsum = {}
    for r in infos:
        d = cfgsum.setdefault(r["config"], {"executions": 0, "completed": True})
        d["executions"] += r["executions"]
        d["completed"] = d["completed"] and r["completed"]
    coverage = {
        "evaluations": int(agg.cov.get("evaluations", 0)),
        "distinct_nontrivial": int(agg.cov.get("nontrivial", 0)),
        "rule": "one evaluation = one complete execution of the real pipeline under the controlled scheduler; the DFS never repeats a choice sequence, so every execution is a distinct schedule; non-trivial = contains at least one preemption or injected spurious wake-up",
        "states": int(states),
        "transitions": int(agg.cov.get("transitions", 0)),
        "traces_validated_against_impl": int(agg.cov.get("evaluations", 0)),
        "samples": agg.samples[:8],
        "configurations": cfgsum,
        "n_configurations": len(cfgsum),
        "outcomes": agg.hist.get("outcomes", {}),
        "distinct_observations_summed_over_configs": int(agg.cov.get("distinct_observations", 0)),
        "sleepset_blocked_executions": int(agg.cov.get("sleepblocked", 0)),
        "states_note": "distinct hashes of (thread/lock/condvar state, buffer states+cursors, turn/over/live counters) seen at choice points, united per configuration and summed; used as a metric only, never for pruning",
        "monitor": TITLE[pid],
        "caps_hit": bool(capped),
        "state_matching": {
            "executions_cut_at_known_state": int(agg.cov.get("state_cuts", 0)),
            "successor_checks": int(agg.cov.get("successor_checks", 0)),
            "successor_mismatches": int(agg.cov.get("successor_mismatches", 0)),
            "abstraction_deterministic": bool(agg.flags.get("abstraction_deterministic", True)),
            "note": "configurations marked state-matching are explored without a preemption bound; branching stops at a choice point whose canonical state was expanded before. "
                    "Assumption: the canonical state (valid chunk bytes, cursors, buffer states, turn/over/live, modelled mutex/condvar state, each thread's pending operation with hook kind/argument and its "
                    "return-address chain, stream states, output written, input position, monitor state) determines the future; checked on every execution by requiring that (state, thread chosen) always leads to the same next state",
        },
    }
    coverage.update(aux)
    assumptions = [
        "synchronisation reaches the kernel only through the interposed pthread functions (std::thread/mutex/condition_variable do); sequential consistency between scheduling points",
        "scheduling points: every pthread operation, every WENCRY_VERIF_POINT and every block handed to a stream",
        "bounded to the listed configurations (T<=4, <=5 chunks, chunk size 1-3 blocks) and preemption bounds; see DESIGN.md section 6",
    ]
    return c.finish(pid, tier, "model_checking", coverage, mine, assumptions, t0, seed, exhaustive=not capped, cannot_decide=cannot)


def do_replay(pid, path, exe):
    import json
    import subprocess
    r = json.load(open(path))["replay"]
    args = r["args"].split()
    bufsz = int(r.get("bufsz", 2))
    argv = [exe(bufsz, "none", any(a == "instr=1" for a in args))] + [a for a in args if not a.startswith("bufsz=")] + ["replay=" + ",".join(map(str, r["schedule"])) if r["schedule"] else "replay="]
    env = dict(os.environ)
    env.update(c.HARNESS_ENV)
    p = subprocess.run(argv, stdout=subprocess.PIPE, text=True, env=env)
    print(p.stdout.strip())
    if p.returncode == 1:
        print("VIOLATION property=%s replay=%s" % (pid, path))
    return p.returncode
