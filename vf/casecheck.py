"""Generic driver for harnesses built on harness/cases.hpp (exhaustive grids of cases)."""
import json
import os
import subprocess
import time

from . import common as c


def run_spec(pid, tier, spec, replay=None):
    """spec: dict(harness=, src=[...], builds=[ {defs:[..], sanitize:, args:{..}, nshards:int, libs} ... ] per tier via
    spec['plan'](tier), level, rule, assumptions, extra_cov (callable(agg)->dict) )"""
    t0 = time.time()
    seed = c.seed_from_env()
    deadline_s = float(os.environ.get("VERIF_DEADLINE_S", "2400" if tier == "thorough" else "900"))
    level = spec["level"]
    empty = {"evaluations": 0, "distinct_nontrivial": 0, "rule": spec["rule"], "samples": []}
    try:
        if replay:
            return do_replay(pid, spec, replay)
        jobs = []
        for b in spec["plan"](tier):
            exe = c.build_exe(spec["harness"], spec["src"], defs=b.get("defs", []), sanitize=b.get("sanitize", "address"), libs=b.get("libs", ["-lcrypto"]),
                              main_cpp=b.get("main_cpp", False), instrument_sources=b.get("instrument_sources", ()), instrument_fine=b.get("instrument_fine", False))
            n = b.get("nshards", c.NCPU)
            for sh in range(n):
                jobs.append([exe] + ["%s=%s" % kv for kv in b["args"].items()] + ["tier=" + tier, "seed=%d" % seed, "shard=%d" % sh, "nshards=%d" % n])
        res = c.run_jobs(jobs, deadline=t0 + deadline_s)
    except c.CannotDecide as e:
        c.log(str(e)[:3000])
        return c.finish(pid, tier, level, empty, [], [], t0, seed, False, cannot_decide=str(e)[:300])
    agg = c.Agg()
    agg.add(res)
    cannot = None
    timed_out = [f for f in agg.failed if f[1] == -999]
    bad = [f for f in agg.failed if f[1] != -999]
    if bad:
        cannot = "harness process failed: rc=%s %s ... %s" % (bad[0][1], " ".join(bad[0][0][1:5]), bad[0][2][-300:].replace("\n", " "))
    if agg.flags.get("machinery_ok", True) is False:
        why = [r.get("machinery_failure") for r in agg.info if r.get("machinery_failure")]
        cannot = cannot or ("the harness itself hit a limit or internal error (%s): not a verdict about the property" % "; ".join(why[:2]))
    classes = agg.sets.get("classes", set())
    cov = {
        "evaluations": int(agg.cov.get("evaluations", 0)),
        "distinct_nontrivial": len(classes),
        "rule": spec["rule"],
        "samples": agg.samples[:10],
        "cases_in_grid": int(agg.cov.get("cases_total", 0) / max(1, len(jobs)) * 1) if False else None,
        "outcomes": agg.hist.get("outcomes", {}),
        "violating_cases": int(agg.cov.get("violating_cases", 0)),
        "caps_hit": bool(timed_out),
    }
    cov.pop("cases_in_grid")
    for k, v in agg.cov.items():
        if k not in ("evaluations", "cases_total", "violating_cases"):
            cov[k] = v
    if spec.get("extra_cov"):
        cov.update(spec["extra_cov"](agg))
    if spec.get("post"):
        try:
            pc, pv = spec["post"](tier)
            cov.update(pc)
            agg.viol.extend(pv)
        except c.CannotDecide as e:
            cannot = cannot or ("post pass could not be built: " + str(e)[:200])
    if level == "model_checking":
        cov.setdefault("states", len(classes))
        cov.setdefault("transitions", cov["evaluations"])
        cov.setdefault("traces_validated_against_impl", cov["evaluations"])
    if timed_out and cov["evaluations"] == 0 and not agg.viol:
        cannot = cannot or "the deadline (VERIF_DEADLINE_S) was reached before a single case had finished: nothing was explored, nothing is claimed"
    stopped = cov.get("stopped_after_repeated_hangs", 0) > 0
    return c.finish(pid, tier, level, cov, agg.viol, spec["assumptions"], t0, seed, exhaustive=not timed_out and not bad and not stopped, cannot_decide=cannot)


def do_replay(pid, spec, path):
    rec = json.load(open(path))
    r = rec["replay"]
    if "args" not in r:
        # a violation found by the check's post pass (system-call history of the real binary, command-line pass): the pass is small and
        # deterministic, so it is re-run twice as a whole and the recorded key must come back both times
        if not spec.get("post"):
            print("replay file has no harness arguments and the check has no post pass")
            return 2
        found = []
        for _ in range(2):
            _, pv = spec["post"]("quick")
            found.append(sorted(v["desc"] for v in pv if v.get("key") == rec.get("key")))
        print(json.dumps({"t": "replay", "key": rec.get("key"), "verdict": "violation" if found[0] else "holds", "instances": found[0][:3], "deterministic": found[0] == found[1]}))
        if found[0] != found[1]:
            return 3
        if found[0]:
            print("VIOLATION property=%s replay=%s" % (pid, path))
            return 1
        return 0
    args = dict(a.split("=", 1) for a in r["args"].split() if "=" in a)
    tier = args.get("tier", "quick")
    # find the build whose args match the mode of the replay
    builds = spec["plan"](tier)
    b = builds[0]
    for cand in builds:
        if all(str(cand["args"].get(k)) == args.get(k) for k in cand["args"] if k in ("mode", "sub", "bufsz", "hbufsz", "sched")) and (cand["args"].get("sched") == args.get("sched")):
            b = cand
            break
    exe = c.build_exe(spec["harness"], spec["src"], defs=b.get("defs", []), sanitize=b.get("sanitize", "address"), libs=b.get("libs", ["-lcrypto"]), main_cpp=b.get("main_cpp", False), instrument_sources=b.get("instrument_sources", ()), instrument_fine=b.get("instrument_fine", False))
    argv = [exe] + r["args"].split() + ["single=" + r["single"]]
    env = dict(os.environ)
    env.update(c.HARNESS_ENV)
    p = subprocess.run(argv, stdout=subprocess.PIPE, text=True, env=env)
    print(p.stdout.strip())
    if p.returncode == 1:
        print("VIOLATION property=%s replay=%s" % (pid, path))
    return p.returncode
