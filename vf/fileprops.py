"""File-level properties decided by exhaustive grids over the whole-file operations (canonical schedule)."""
from . import casecheck

ASSUME_FILE = [
    "pipeline run on the canonical schedule of vsched (scheduling is C03/C04/C14's subject); ASan build: any memory error ends the case abnormally",
    "chunk size overridden to a few blocks (WENCRY_VERIF_BUF_SZ) so that every chunk-boundary class occurs within a few hundred bytes; hash refill size overridden to 128 bytes",
    "reference = OpenSSL libcrypto (EVP AES modes, SHA-1/MD5/SHA-256, HMAC), self-tested against FIPS-197/SP800-38A/RFC vectors at start",
    "data values come from small fixed alphabets (keys, seeds, contents); lengths, modes and thread counts are enumerated completely within the stated bounds",
]


def defs(bufsz, hbufsz=2):
    return ["-DWENCRY_VERIF_BUF_SZ=%d" % bufsz, "-DWENCRY_VERIF_HBUF_SZ=%d" % hbufsz]


def grid_plan(mode):
    def plan(tier):
        if tier == "thorough":
            return [dict(defs=defs(b), args=dict(mode=mode, bufsz=b, hbufsz=2), nshards=16) for b in (2, 1, 3, 4)]
        return [dict(defs=defs(2), args=dict(mode=mode, bufsz=2, hbufsz=2), nshards=16)]
    return plan


SPECS = {
    "C01": dict(
        harness="fgrid", src=["harness/fgrid.cpp"], plan=grid_plan("c01"), level="exploration",
        rule="every (T in 1..16, byte length 0..(T+2)*chunk+17, cipher mode 0..4, hash mode 0..2 for T in {1,2,4} else 0) with key/seed/content alphabets; "
             "one evaluation = execute_encrypt then execute_decrypt through the real pipeline; distinct = structural class (T, modes, length mod 16, blocks in last chunk, chunk count vs T)",
        assumptions=ASSUME_FILE),
    "C02": dict(
        harness="fgrid", src=["harness/fgrid.cpp"], plan=grid_plan("c02"), level="exploration",
        rule="same grid as C01 plus seeds {'seed','', 'a', 255*'x'}; one evaluation = execute_encrypt twice, output compared byte for byte with the libcrypto reference of the documented format, "
             "determinism, no plaintext block in the body, input unchanged; distinct = structural class",
        assumptions=ASSUME_FILE),
}


def run(pid, tier, replay=None):
    return casecheck.run_spec(pid, tier, SPECS[pid], replay=replay)
