"""File-level properties decided by exhaustive grids over the whole-file operations (canonical schedule)."""
from . import casecheck

ASSUME_FILE = [
    "pipeline run on the canonical schedule of vsched (scheduling is C03/C04/C14's subject); ASan build: any memory error ends the case abnormally; C01/C02 additionally on a second deterministic schedule (round robin, with scheduling points inside the stream code) for T >= 2",
    "chunk size overridden to a few blocks (WENCRY_VERIF_BUF_SZ) so that every chunk-boundary class occurs within a few hundred bytes; hash refill size overridden to 128 bytes",
    "reference = OpenSSL libcrypto (EVP AES modes, SHA-1/MD5/SHA-256, HMAC), self-tested against FIPS-197/SP800-38A/RFC vectors at start",
    "data values come from small fixed alphabets (keys, seeds, contents); lengths, modes and thread counts are enumerated completely within the stated bounds",
]


def defs(bufsz, hbufsz=2):
    return ["-DWENCRY_VERIF_BUF_SZ=%d" % bufsz, "-DWENCRY_VERIF_HBUF_SZ=%d" % hbufsz]


INSTR_SOURCES = ("kernel/multi_aes/aes/aesmode.cpp", "kernel/multi_aes/aes/aes.cpp")


def grid_plan(mode):
    def plan(tier):
        # second deterministic schedule: round robin with scheduling points inside the cipher-stream code (T >= 2 only)
        rr = dict(defs=defs(2), args=dict(mode=mode, bufsz=2, hbufsz=2, sched="rr"), nshards=16, sanitize="none", instrument_sources=INSTR_SOURCES, instrument_fine=True)
        if tier == "thorough":
            L = [dict(defs=defs(b), args=dict(mode=mode, bufsz=b, hbufsz=2), nshards=16) for b in (2, 1, 3, 4)]
            # the production constants themselves (16 MiB chunks, 32 MiB hash refills) on the real chunk-boundary lengths
            L.append(dict(defs=[], args=dict(mode=mode, prod=1, bufsz="production", hbufsz="production"), nshards=12))
            L.append(rr)
            return L
        return [dict(defs=defs(2), args=dict(mode=mode, bufsz=2, hbufsz=2), nshards=16), rr]
    return plan


SPECS = {
    "C01": dict(
        harness="fgrid", src=["harness/fgrid.cpp"], plan=grid_plan("c01"), level="exploration",
        rule="every (T in 1..16, byte length 0..(T+2)*chunk+17, cipher mode 0..4, hash mode 0..2 for T in {1,2,4} else 0) with key/seed/content alphabets; "
             "one evaluation = execute_encrypt then execute_decrypt through the real pipeline; distinct = structural class (T, modes, length mod 16, blocks in last chunk, chunk count vs T)",
        assumptions=ASSUME_FILE),
    "C02": dict(
        harness="fgrid", src=["harness/fgrid.cpp"], plan=grid_plan("c02"), level="exploration",
        rule="same grid as C01 plus seeds {'seed', 256*'y', '', two whose SHA-1 chain has a link that begins with 0x00 (thorough: +'a', 255*'x', 304 chars, binary, two more with a 0x00-led link)} and the size argument of execute_* given exact / 0 / too large (also in C01); one evaluation = execute_encrypt twice, output compared byte for byte with the libcrypto reference of the documented format, "
             "determinism, no plaintext block in the body, input unchanged; distinct = structural class",
        assumptions=ASSUME_FILE),
}


def tamper_plan(mode):
    def plan(tier):
        return [dict(defs=defs(2), args=dict(mode=mode, bufsz=2, hbufsz=2), nshards=16)]
    return plan


SPECS.update({
    "C05": dict(
        harness="ftamper", src=["harness/ftamper.cpp"], plan=tamper_plan("c05"), level="fault_enumeration",
        rule="base files made by the reference plus a third of them written by wencry's own encrypt (quick: 30 covering every cipher x hash mode, T in {1,2,4}, 6 sizes; thorough: all 270); on each, EVERY single-bit flip, every byte value at offsets 0..9, "
             "every truncation, 6 extensions, every one-byte and 16-byte deletion/insertion, every swap of two body blocks / chunks / IV fields, the pair modification (tag byte 0 or whole tag := 0x00) x (every value of one of the last body bytes), every fourth altered copy presented straight after the genuine file was accepted - half of those altered IN PLACE (same inode, size and times) (thorough: + header-byte x body-bit pairs); "
             "plus four base files with T in {2,3,6,7} whose authenticated length mod 64 is 56/60 (two-block hash padding); "
             "one evaluation = verify + decrypt of one modified file; oracle: both fail, or both succeed with exactly the original plaintext; distinct = (modification kind, base file) classes",
        assumptions=ASSUME_FILE + ["single modifications only (plus the stated pairs); the known finding C05 hdr-byte-8 is matched by its key, any other accepted modification is a violation"]),
    "C06": dict(
        harness="ftamper", src=["harness/ftamper.cpp"], plan=tamper_plan("c06"), level="fault_enumeration",
        rule="base files made by the reference AND the same files written by wencry's own encrypt x keys {all 128 single-bit neighbours, all-zero, all-FF, rotated, reversed}; one evaluation = verify + decrypt under the wrong key, for every second key preceded by a verify of the SAME file (same inode) with the right key; "
             "oracle: both report failure and the output stream holds 0 bytes; distinct = (base file, key class); "
             "plus the real binary with a wrong key while the k-th read(2) of the input fails with EIO, for every k, transient and persistent (strace syscall tampering): never exit 0, no output",
        post=lambda tier: __import__("vf.cli", fromlist=["c06_cli"]).c06_cli(tier),
        assumptions=ASSUME_FILE),
    "C11": dict(
        harness="ftamper", src=["harness/ftamper.cpp"], plan=tamper_plan("c11"), level="fault_enumeration",
        rule="malformed inputs: every truncation of 9 valid files, every length 0..80 of {zeros, FF, valid-prefix+garbage}, every magic prefix length, mode-byte pairs (quick: 11x11 border values; thorough: all 65,536) "
             "on valid files of all 15 mode combinations, right-magic/wrong-tag files with 7 body lengths, well-formed headers with a constant tag field (all 0x00 / all 0xFF) over 2,048 bodies per hash mode (thorough 16,384), plus a labelled pseudo-random sample (one file per length 0..300, NOT counted as exhaustive); "
             "one evaluation = verify + decrypt in a forked ASan child; oracle: normal return, success only if the tag is authentic, failed decrypt wrote 0 bytes, successful decrypt wrote <= body bytes",
        assumptions=ASSUME_FILE + ["files that carry a valid tag but were not produced by encryption are outside the property's domain and are not generated"]),
    "C12": dict(
        harness="ftamper", src=["harness/ftamper.cpp"], plan=tamper_plan("c12"), level="fault_enumeration",
        rule="union of the C05 modification corpus (10 base files), the C06 key set, the C11 malformed corpus and valid files cut to every length >= 48 and re-tagged with the key; one evaluation = verify and decrypt of the same (file,key); "
             "oracle: equal results, verify leaves its output stream empty, input files byte-identical afterwards; "
             "plus the real binary: -v, -d -o OUT and -d without -o on private copies of {valid, tampered, garbage, empty, cut} files named with and without .wenc, both keys: input intact, -v creates nothing, -v and -d -o agree",
        post=lambda tier: __import__("vf.cli", fromlist=["c12_cli"]).c12_cli(tier),
        assumptions=ASSUME_FILE),
})


ASSUME_LIB = [
    "reference = OpenSSL libcrypto / RFC 4648 written out in the harness; reference self-tested against published vectors at start",
    "structure (lengths, residues, refill boundaries, carries, table entries, byte positions) is enumerated completely within the stated bounds; data values come from small alphabets (DESIGN.md section 6)",
]


def c07_plan(tier):
    L = [dict(defs=defs(2, 2), args=dict(mode="c07", sub="string", bufsz=2, hbufsz=2), nshards=8)]
    for hb in (1, 2, 3):
        L.append(dict(defs=defs(2, hb), args=dict(mode="c07", sub="file", bufsz=2, hbufsz=hb), nshards=8))
    L.append(dict(defs=defs(2, 2), sanitize="none", args=dict(mode="c07", sub="big" if tier == "thorough" else "big1", bufsz=2, hbufsz=2), nshards=12 if tier == "thorough" else 3))
    return L


def lib_plan(mode, sanitize="address", shards=16):
    def plan(tier):
        return [dict(defs=defs(2, 2), sanitize=sanitize, args=dict(mode=mode, bufsz=2, hbufsz=2), nshards=shards)]
    return plan


SPECS.update({
    "C07": dict(
        harness="cryptolib", src=["harness/cryptolib.cpp"], plan=c07_plan, level="exploration",
        rule="getStringHash: every length 0..320 x {zeros, FF, counter, 0x80 at every single position}; getFileHash through filebuffer64 built with refill size 64/128/192 bytes: every length 0..3R+65, "
             "with and without the 64-byte prefix block, start offsets 0..3, contents {counter, all 0xFF, all 0x00}; string messages placed at every offset 0..7 from an aligned address; 2^29 bytes (thorough: 2^29-1, 2^29, 2^29+1, 2^29+57) fed through a buffer64 subclass, so that the bit counter crosses 2^32; "
             "all three algorithms; oracle = libcrypto digest; distinct = (entry point, algorithm, length mod 64, blocks/refills, prefix)",
        assumptions=ASSUME_LIB),
    "C08": dict(
        harness="cryptolib", src=["harness/cryptolib.cpp"], plan=lib_plan("c08"), level="exploration",
        rule="hmac::gethmac on memfd files: every key byte position x {00,7f,80,ff} on two base keys; 5 keys x 3 hash modes x every message length 0..3R+65 x start positions (quick: 10 incl. 0,47,48,49,64; thorough: 0..80) x contents {counter, all 0xFF}; cmphmac with the right tag and with every single-bit-flipped tag; one hmac object reused over all 15 (mode,key) pairs in 8 orders must behave like fresh objects; "
             "files written by execute_encrypt (T in {1,2,3,4,5,16}, 3 cipher modes, 3 hash modes, lengths 0..2*chunk+17): bytes [10,10+hlen) == HMAC of [48,EOF), [10+hlen,48) zero; oracle = OpenSSL HMAC()",
        assumptions=ASSUME_LIB + ASSUME_FILE[:1]),
    "C09": dict(
        harness="cryptolib", src=["harness/cryptolib.cpp"], plan=lib_plan("c09", sanitize="none"), level="exploration",
        rule="tables exhaustively (S-box and inverse from the GF(2^8) definition, every log/antilog product the rounds can form for the 7 MixColumns constants x 256 values, Rcon); every (key, block) that differs from a base pair "
             "in one key byte (16x256) and one block byte (16x256) - quick: FIPS-197 C.1 base fully + 3 other bases on a 1/5 lattice, thorough: 8 bases fully = 134M pairs; all 128x128 single-bit pairs on 4 (thorough 8) bases; blocks placed at every offset 0..15 from a 16-byte boundary in turn; round states: for every round 1..9, column 0..3 and 881 column patterns (5^4 over {00,01,80,ff,53} + all 256 four-equal-bytes columns) x 3 contexts, the (key, block) whose state entering MixColumns, entering InvMixColumns of the inverse cipher, or of the equivalent inverse cipher has that column (constructed with an own FIPS-197 implementation, self-checked against libcrypto); "
             "encrypt == libcrypto, decrypt(encrypt(x)) == x, decrypt == libcrypto; distinct = (base, key byte position)",
        assumptions=ASSUME_LIB + ["bounded-alphabet claim: 2^256 pairs cannot be enumerated; every table entry, byte position and single-byte data path is"]),
    "C10": dict(
        harness="cryptolib", src=["harness/cryptolib.cpp"], plan=lib_plan("c10", sanitize="none"), level="exploration",
        rule="one AesFactory object through ALL operation sequences up to length 4 over {loadiv(A), loadiv(B), create(enc/dec, m1), create(enc/dec, m2)} for all 25 mode pairs, every live object checked block by block; objects from AesFactory::createCryMaster: 5 modes x 3 keys x 20 IVs (last k bytes 0xFF for k=0..16: counter carry through every depth, + 3 others) x ALL block sequences of length 0..4 over a 3-block alphabet (121; thorough: length 0..5 over 4 blocks = 1,365), "
             "plus streams of 300 and 65,539 blocks (thorough: also 2^20+3); working buffer at every offset 0..15 from a 16-byte boundary in turn, and every stream also through one reused 16-byte block; encryptor == EVP (no padding), decryptor(encryptor output) == input, decryptor == EVP decrypt; distinct = (mode, IV kind, stream length class)",
        assumptions=ASSUME_LIB),
    "C16": dict(
        harness="cryptolib", src=["harness/cryptolib.cpp"], plan=lib_plan("c16"), level="exploration",
        rule="encoder: all 2^24 three-byte groups, all 2^16/2^8 tails, lengths 0..40, NUL terminator and no overrun; decoder: all 64^4 four-symbol groups (quick: 64x{3 second symbols}x64^2) and all padded tails, decode(encode(x))==x; "
             "validator: all 2^24 placements of '=' in a 24-character string, every byte value at every position of 3 canonical strings, all two-position class deviations, every length 0..40, all 65x65 endings; "
             "two-sided oracle: canonical encodings of 16-byte values MUST be accepted, anything that is not 22 symbols + '==' MUST be rejected, non-zero unused trailing bits are don't-care; every accepted string is decoded into a 16-byte heap buffer under ASan; printed keys for every byte position x value are accepted and decode to the same key",
        assumptions=ASSUME_LIB),
})


def extra_plan(mode, bufs=(2,)):
    def plan(tier):
        bb = bufs if tier == "quick" else tuple(sorted(set(bufs) | {1, 2}))
        return [dict(defs=defs(b), args=dict(mode=mode, bufsz=b, hbufsz=2), nshards=16) for b in bb]
    return plan


SPECS.update({
    "C13": dict(
        harness="fextra", src=["harness/fextra.cpp"], plan=extra_plan("c13"), level="fault_enumeration",
        rule="execute_encrypt writes through a fopencookie stream that logs every (offset, bytes) stdio hands down, for stdio buffer modes {default, unbuffered, 64-byte}; grid 5 cipher x 3 hash modes x T in {1,2,4} x 6 sizes "
             "(quick: a third of the product); EVERY prefix of the write log and EVERY byte prefix inside every write is materialised as a file and given to verify and decrypt; "
             "oracle: a state is accepted only if its bytes equal the complete file, and the complete file is accepted; one evaluation = verify+decrypt of one distinct crash state; distinct = grid cell",
        post=lambda tier: __import__("vf.c13strace", fromlist=["run"]).run(tier),
        assumptions=ASSUME_FILE + ["second history: strace of the real binary (write/pwrite64/lseek on the output file), same enumeration, states given to the real Wencry -v / -d", "crash model = process death: writes reach the file in issue order, the last one possibly torn at any byte; no power-failure reordering (the property does not ask for it)"]),
    "C18": dict(
        harness="fextra", src=["harness/fextra.cpp"], plan=extra_plan("c18", bufs=(1, 2)), level="exploration",
        rule="T=2..16 (quick: T<=4 fully, larger T on a 1/4 lattice), cipher modes 1..4, 11 seeds (empty, 1, 4, 255, 256, 304 characters, binary, four whose SHA-1 chain has a link beginning with 0x00), plaintexts of 2T+1 chunks with (a) equal chunks (b) distinct chunks, chunk size 1 and 2 blocks; checks: IV fields pairwise distinct and seed dependent, "
             "ciphertext seed dependent, no two streams start from the same value (equal plaintext chunks must not give equal ciphertext chunks; CTR/OFB: C_i xor C_j != P_i xor P_j); a violation is keyed by its cause "
             "(whole file equals the reference in which every stream starts from IV[0] => stream-start-iv:shared-with-stream-0)",
        assumptions=ASSUME_FILE),
})


def c15_extra(agg):
    states = set()
    seqs = 0
    for k in agg.hist.get("outcomes", {}):
        if k.startswith("holds:"):
            seqs += 1
            for st in k[len("holds:"):].split(";"):
                states.add(st)
    solo = {r["operation"]: r["alone_in_fresh_process"] for r in agg.info if "operation" in r}
    return {"states": max(1, len(states)), "distinct_canonical_states": sorted(states), "distinct_state_sequences": seqs,
            "transitions": int(agg.cov.get("evaluations", 0)), "traces_validated_against_impl": int(agg.cov.get("evaluations", 0)),
            "operations_alone": solo,
            "inductive_note": "if distinct_canonical_states has one element, every library-level operation returns the process to the initial canonical state (live counter, singleton, thread count, default-name buffer), "
                              "so agreement at this depth extends to longer library-level histories; histories containing command-line parsing also carry glibc's hidden getopt cursor, for them the claim is the depth bound"}


SPECS.update({
    "C15": dict(
        harness="histories", src=["harness/histories.cpp"], plan=lambda tier: [dict(defs=defs(2), args=dict(mode="c15", bufsz=2, hbufsz=2), nshards=16)], level="model_checking",
        rule="alphabet of 25 operations (16 library-level: encrypt/decrypt/verify incl. failing ones, multi-chunk files whose blocks end in padding-like bytes, two under a second key that shares its first bytes with the first, a file altered / repaired IN PLACE (same inode, size, times) after an earlier operation saw it, a file read with more workers than it was written with; 9 command-line vectors incl. parses that fail early, inside a short-option cluster and on an overflowing number); ALL sequences up to depth 3 "
             "(thorough: depth 4, full alphabet), each history in one fresh forked process on the canonical schedule; differential oracle: the i-th operation observes exactly what it observes alone in a fresh process; "
             "state = canonical process-wide state after each step; distinct = (depth, first op, last op) classes",
        assumptions=ASSUME_FILE + ["random IV seed of the command-line encrypt is treated as an output: its file is checked through the reference decryptor instead of byte equality"],
        extra_cov=c15_extra),
})


def run(pid, tier, replay=None):
    return casecheck.run_spec(pid, tier, SPECS[pid], replay=replay)
