"""Self-tests of the framework itself: scheduler toys and the reference model's known answers."""
import json
import os
import subprocess

from . import common as c


def run(verbose=True):
    exe = c.build_exe("sched_selftest", ["harness/sched_selftest.cpp"], defs=[], sanitize="none", repo_sources=[], libs=[])
    env = dict(os.environ)
    p = subprocess.run([exe], stdout=subprocess.PIPE, stderr=subprocess.PIPE, text=True, env=env, timeout=600)
    res = []
    for line in p.stdout.splitlines():
        if line.startswith("{"):
            r = json.loads(line)
            if r.get("t") == "selftest":
                res.append(r)
                if verbose or not r["ok"]:
                    print("SELFTEST %s: %s%s" % ("ok  " if r["ok"] else "FAIL", r["name"], "" if r["ok"] else "  -- " + r["detail"]))
    os.makedirs(os.path.join(c.BUILD), exist_ok=True)
    json.dump(res, open(os.path.join(c.BUILD, "selftest.json"), "w"), indent=1)
    if p.returncode != 0 or not res:
        print("SELFTEST: scheduler self-test failed (rc=%d) %s" % (p.returncode, p.stderr[-500:]))
        return 2
    # reference model known answers + Python cross-check of the RFC 4648 / hash references
    from . import cli
    _, reftool = cli.build_tools()
    r = subprocess.run([reftool, "selftest"], stdout=subprocess.PIPE, text=True)
    if r.returncode != 0:
        print("SELFTEST: reference model failed its known-answer vectors")
        return 2
    print("SELFTEST ok: %d scheduler toys, reference known-answer vectors" % len(res))
    return 0


def summary():
    p = os.path.join(c.BUILD, "selftest.json")
    if os.path.exists(p):
        r = json.load(open(p))
        return {"scheduler_selftests": len(r), "scheduler_selftests_ok": sum(1 for x in r if x["ok"])}
    return {}
