/* vsched: serialising scheduler over interposed pthread operations.
 * The harness executable links vsched.c; its definitions of pthread_create/join,
 * pthread_mutex_lock/trylock/unlock and pthread_cond_wait/timedwait/clockwait/signal/broadcast
 * take precedence over libc's for every caller in the process (libstdc++ included).
 * While a scenario is active (between vs_begin and vs_end) real threads run one at a time,
 * hand-off by futex; mutexes and condition variables are modelled, never really used.  */
#ifndef VSCHED_H
#define VSCHED_H
#include <stdint.h>
#ifdef __cplusplus
extern "C" {
#endif

#define VS_MAXT 96 /* virtual threads per scenario (16 workers + I/O thread + helper threads a refactoring may spawn per chunk) */
#define VS_MAXPTS 60000
#define VS_MAXRACES 16

/* one recorded choice point (a point with more than one candidate) */
typedef struct {
  uint8_t nen;         /* number of candidates */
  uint8_t chosen_idx;  /* index taken */
  uint8_t cur_enabled; /* running thread was a candidate (so idx != 0 is a preemption) */
  uint8_t chosen_tid;
  uint8_t spur_from;   /* candidates with index >= spur_from are spurious wake-ups (== nen if none) */
  uint8_t op;          /* pending op kind of the chosen thread */
  uint8_t pad[2];
} vs_pt_t;

typedef struct {
  int loc, t_prev, t_now, code_prev, code_now, write_prev, write_now;
} vs_race_t;

enum { VS_OK = 0, VS_DEADLOCK = 1, VS_HORIZON = 2, VS_DIVERGE = 3, VS_SLEEPBLOCKED = 4, VS_TOOMANYPTS = 5 };

extern vs_pt_t vs_pts[VS_MAXPTS];
extern int vs_npts;
extern long vs_steps;        /* scheduling steps (transitions) */
extern int vs_pc_frames;     /* return addresses hashed into a thread's control location (state hash) */
extern long vs_horizon;      /* max steps, default 200000 */
extern int vs_prefix[VS_MAXPTS];
extern int vs_nprefix;
extern int vs_sleepmode;     /* 1: sleep sets (unbounded search) */
extern int vs_spurious;      /* remaining spurious wake-ups that may be injected */
extern int vs_unlock_points; /* 1 (default): scheduling point after every mutex release */
extern int vs_policy;        /* 0: canonical default (stay on the running thread), 1: round robin at every choice point beyond the prefix */
extern int vs_nthreads_seen; /* threads created in this scenario incl. main */
extern vs_race_t vs_races[VS_MAXRACES];
extern int vs_nraces;
extern uint64_t vs_hashes[VS_MAXPTS];
extern uint64_t vs_parts[VS_MAXPTS][4]; /* the same hash split into its four components (debugging the abstraction) */ /* state hash at each recorded choice point */
extern uint64_t (*vs_obs_hash)(void); /* harness-supplied observable-state hash (may be NULL) */
extern long (*vs_group_of)(int op, void *obj); /* canonical id of the object a pending pthread op names (state hash); -1 = unknown */
/* footprints (sleep-set mode): which shared objects the transition that starts at a scheduling point touches.
   Two transitions of different threads are independent iff no object is shared with at least one write.
   obj < 0 = "everything" (dependent with every other transition). */
typedef struct { long obj; int write; } vs_fp_t;
#define VS_MAXFP 4
/* footprint of a pending pthread operation (lock/broadcast/signal/pre-wait on the object `obj`); returns the count */
extern int (*vs_fp_of)(int op, void *obj, vs_fp_t out[VS_MAXFP]);
void vs_point_fp(int kind, long group, const vs_fp_t *fp, int nfp); /* scheduling point with an explicit footprint */
/* called (in the dying child) before _exit on deadlock/horizon/divergence; arg = VS_* code */
extern void (*vs_on_fatal)(int code);

void vs_begin(void);
void vs_end(void);
int vs_active(void);
int vs_thread_done(int t);             /* virtual thread t has returned from its start routine */
int vs_self(void);                      /* virtual thread id of the caller (0 = scenario's main thread) */
void vs_point(int kind, long group);    /* scheduling point at an unsynchronised access */
void vs_access(int loc, int is_write, int code); /* happens-before race monitor */
/* futex-word model (libstdc++ future/promise/async, see vsched_cxx.cpp): return -1 when the scheduler is not active */
int vs_futex_wait(unsigned *addr, unsigned val);
int vs_futex_wake(unsigned *addr);
extern int vs_futex_ops; /* modelled futex-word / pthread_once operations seen in the current scenario */
/* description of what every unfinished thread is blocked on (for deadlock reports) */
int vs_describe(char *buf, int n);
/* hand-over exit codes used by children */
#define VS_EXIT_DEADLOCK 42
#define VS_EXIT_DIVERGE 43
#define VS_EXIT_TOOMANY 44
#define VS_EXIT_SLEEPBLOCKED 45
#define VS_EXIT_HORIZON 46

#ifdef __cplusplus
}
#endif
#endif
