// vsched_cxx.cpp - the two out-of-line members through which libstdc++'s std::future / std::promise / std::packaged_task /
// std::async block and wake (bits/atomic_futex.h). The header-inlined callers in the code under test bind to these definitions;
// while the scheduler is active they are modelled (vsched.c), otherwise they do what the library does.
#include "vsched.h"
#include <bits/atomic_futex.h>
#include <chrono>
#include <cerrno>
#include <climits>
#include <linux/futex.h>
#include <sys/syscall.h>
#include <time.h>
#include <unistd.h>
#if defined(_GLIBCXX_HAVE_LINUX_FUTEX)
namespace std {
static bool real_wait(unsigned *addr, unsigned val, bool has_timeout, chrono::seconds s, chrono::nanoseconds ns, int clock) {
  if (!has_timeout) { syscall(SYS_futex, addr, FUTEX_WAIT, val, nullptr); return true; }
  struct timespec now;
  clock_gettime(clock, &now);
  struct timespec rt;
  rt.tv_sec = s.count() - now.tv_sec;
  rt.tv_nsec = ns.count() - now.tv_nsec;
  if (rt.tv_nsec < 0) { rt.tv_nsec += 1000000000; --rt.tv_sec; }
  if (rt.tv_sec < 0) return false;
  if (syscall(SYS_futex, addr, FUTEX_WAIT, val, &rt) == -1 && errno == ETIMEDOUT) return false;
  return true;
}
bool __atomic_futex_unsigned_base::_M_futex_wait_until(unsigned *addr, unsigned val, bool has_timeout, chrono::seconds s, chrono::nanoseconds ns) {
  if (vs_futex_wait(addr, val) == 0) return true; // time-outs are not modelled: a timed wait is a wait
  return real_wait(addr, val, has_timeout, s, ns, CLOCK_REALTIME);
}
bool __atomic_futex_unsigned_base::_M_futex_wait_until_steady(unsigned *addr, unsigned val, bool has_timeout, chrono::seconds s, chrono::nanoseconds ns) {
  if (vs_futex_wait(addr, val) == 0) return true;
  return real_wait(addr, val, has_timeout, s, ns, CLOCK_MONOTONIC);
}
void __atomic_futex_unsigned_base::_M_futex_notify_all(unsigned *addr) {
  if (vs_futex_wake(addr) == 0) return;
  syscall(SYS_futex, addr, FUTEX_WAKE, INT_MAX);
}
} // namespace std
#endif
