// explore.hpp - stateless exploration of a scenario under vsched: one forked child per execution,
// preemption-bounded depth-first search over choice prefixes (iterative context bounding) or an
// unbounded search with sleep sets. The scenario is real code; the explorer only decides who runs.
#pragma once
#include "vsched.h"
#include <signal.h>
#include <sys/wait.h>
#include <unistd.h>
#include <chrono>
#include <cstdio>
#include <cstdlib>
#include <cstring>
#include <functional>
#include <map>
#include <string>
#include <unordered_map>
#include <unordered_set>
#include <vector>

namespace vx {

enum Outcome { OC_OK = 0, OC_DEADLOCK = 1, OC_HORIZON = 2, OC_DIVERGE = 3, OC_SLEEPBLOCKED = 4, OC_TOOMANY = 5, OC_ASAN = 6, OC_TIMEOUT = 7, OC_SIGNAL = 8, OC_EXIT = 9 };
inline const char *outcome_name(int o) {
  static const char *n[] = {"ok", "deadlock", "horizon", "diverge", "sleepblocked", "toomanypts", "asan", "timeout", "signal", "exit"};
  return (o >= 0 && o <= 9) ? n[o] : "?";
}

struct Exec {
  int outcome = -1;
  int sig = 0, exitcode = 0;
  std::vector<vs_pt_t> pts;
  std::vector<uint64_t> hashes;
  std::vector<uint64_t> parts; // 4 per choice point
  long steps = 0;
  bool complete = false; // the child's record arrived in full (a truncated record is never interpreted)
  std::string obs;   // observation string written by the scenario (monitor verdicts, output digest)
  std::string fatal; // description of blocked threads etc.
};

// ---- child side -------------------------------------------------------------------------------------
static int g_wfd = -1;
static std::string *g_obs = nullptr;
static volatile int g_written = 0;
inline void write_all(int fd, const void *p, size_t n) {
  const char *c = (const char *)p;
  while (n) { ssize_t k = write(fd, c, n); if (k <= 0) return; c += k; n -= k; }
}
inline void child_write(int outcome, const std::string &extra) {
  if (g_written) return;
  g_written = 1;
  alarm(0); // the record must not be cut short by the wall-clock alarm (its handler exits the process)
  int32_t hdr[6];
  std::string obs = g_obs ? *g_obs : std::string();
  hdr[0] = outcome; hdr[1] = vs_npts; hdr[2] = (int32_t)vs_steps; hdr[3] = (int32_t)obs.size(); hdr[4] = (int32_t)extra.size(); hdr[5] = 0x5a5a;
  write_all(g_wfd, hdr, sizeof hdr);
  write_all(g_wfd, vs_pts, sizeof(vs_pt_t) * vs_npts);
  write_all(g_wfd, vs_hashes, sizeof(uint64_t) * vs_npts);
  write_all(g_wfd, vs_parts, sizeof(uint64_t) * 4 * vs_npts);
  write_all(g_wfd, obs.data(), obs.size());
  write_all(g_wfd, extra.data(), extra.size());
}
static void (*g_pre_fatal)(int code) = nullptr; // harness hook: last chance to put partial monitor verdicts into the observation string
inline void on_fatal(int code) {
  if (g_pre_fatal) g_pre_fatal(code);
  char buf[512];
  vs_describe(buf, sizeof buf);
  int oc = code == VS_DEADLOCK ? OC_DEADLOCK : code == VS_HORIZON ? OC_HORIZON : code == VS_DIVERGE ? OC_DIVERGE : code == VS_SLEEPBLOCKED ? OC_SLEEPBLOCKED : OC_TOOMANY;
  child_write(oc, buf);
}
inline void on_alarm(int) { child_write(OC_TIMEOUT, "wall-clock alarm"); _exit(47); }
inline void on_crash(int sig) { child_write(OC_SIGNAL, "killed by signal " + std::to_string(sig)); _exit(48); }
} // namespace vx
extern "C" void __asan_on_error() { vx::child_write(vx::OC_ASAN, "AddressSanitizer report"); }
namespace vx {

struct Config {
  int bound = 2;          // preemption bound (bounded mode)
  bool sleep = false;     // unbounded search with sleep sets
  bool stateful = false;  // state-matching search: do not branch below a choice point whose canonical state was expanded before
  bool delay = false;     // delay bounding: every non-default choice costs one deviation (also at blocking points)
  int spurious = 0;       // spurious wake-ups allowed per execution (bounded mode), each counts as one deviation
  long maxexec = -1;      // cap on executions (-1: none)
  double deadline_s = -1; // wall-clock cap (seconds from start)
  double until_epoch = -1; // absolute wall-clock cap (seconds since the epoch)
  int shard = 0, nshards = 1;
  int alarm_s = 10;
  long horizon = 200000;
};

struct Stats {
  long executions = 0, transitions = 0, nontrivial = 0, sleepblocked = 0;
  std::map<std::string, long> outcomes;     // outcome name -> count
  std::map<std::string, long> observations; // distinct obs strings -> count
  std::unordered_set<uint64_t> states;
  long state_cuts = 0;            // executions whose branching was cut at an already expanded state
  long succ_checked = 0, succ_mismatch = 0; // validation of the abstraction: (state, thread chosen) must always lead to the same next state
  bool capped = false;
  int max_preemptions_seen = 0;
};

// scenario: runs inside the child with the scheduler inactive; must call vs_begin()/vs_end() itself
// and fill obs. Returns normally on completion.
typedef std::function<void(std::string &obs)> Scenario;

[[noreturn]] inline void child_main(const std::vector<int> &prefix, const Config &cfg, const Scenario &sc, int wfd) {
  g_wfd = wfd;
  std::string obs;
  g_obs = &obs;
  vs_nprefix = (int)prefix.size();
  for (size_t i = 0; i < prefix.size(); i++) vs_prefix[i] = prefix[i];
  vs_sleepmode = cfg.sleep ? 1 : 0;
  vs_spurious = cfg.sleep ? 0 : cfg.spurious;
  vs_horizon = cfg.horizon;
  vs_on_fatal = on_fatal;
  signal(SIGALRM, on_alarm);
#if !defined(__SANITIZE_ADDRESS__)
  signal(SIGSEGV, on_crash); signal(SIGBUS, on_crash); signal(SIGFPE, on_crash); signal(SIGABRT, on_crash); signal(SIGILL, on_crash);
#endif
  alarm(cfg.alarm_s);
  sc(obs);
  child_write(OC_OK, "");
  _exit(0);
}
inline bool read_all(int fd, void *buf, size_t n) { char *c = (char *)buf; size_t got = 0; while (got < n) { ssize_t k = read(fd, c + got, n - got); if (k <= 0) return false; got += k; } return true; }
inline void parse_exec(Exec &r, const std::string &blob, int status) {
  size_t off = 0;
  auto rd = [&](void *buf, size_t n) { if (off + n > blob.size()) return false; memcpy(buf, blob.data() + off, n); off += n; return true; };
  int32_t hdr[6];
  if (rd(hdr, sizeof hdr) && hdr[5] == 0x5a5a && hdr[1] >= 0 && hdr[3] >= 0 && hdr[4] >= 0 &&
      blob.size() == sizeof hdr + (size_t)hdr[1] * (sizeof(vs_pt_t) + 5 * sizeof(uint64_t)) + (size_t)hdr[3] + (size_t)hdr[4]) {
    r.complete = true;
    r.outcome = hdr[0];
    r.pts.resize(hdr[1]);
    r.hashes.resize(hdr[1]);
    r.parts.resize(4 * (size_t)hdr[1]);
    r.steps = hdr[2];
    r.obs.resize(hdr[3]);
    r.fatal.resize(hdr[4]);
    rd(r.pts.data(), sizeof(vs_pt_t) * hdr[1]);
    rd(r.hashes.data(), sizeof(uint64_t) * hdr[1]);
    rd(r.parts.data(), sizeof(uint64_t) * 4 * hdr[1]);
    if (hdr[3]) rd(&r.obs[0], hdr[3]);
    if (hdr[4]) rd(&r.fatal[0], hdr[4]);
  }
  if (WIFSIGNALED(status)) r.sig = WTERMSIG(status); else r.exitcode = WEXITSTATUS(status);
  if (r.outcome == -1) {
    if (!r.sig && r.exitcode == 47) { r.outcome = OC_TIMEOUT; r.fatal = "wall-clock alarm"; }
    else if (r.sig) { r.outcome = OC_SIGNAL; r.fatal = "killed by signal " + std::to_string(r.sig); }
    else { r.outcome = OC_EXIT; r.fatal = "exit status " + std::to_string(r.exitcode); }
  }
}
// fork one child for one execution, collect everything it writes
inline void fork_and_collect(const std::vector<int> &prefix, const Config &cfg, const Scenario &sc, std::string &blob, int &status) {
  int p[2];
  if (pipe(p) != 0) { perror("pipe"); _exit(95); }
  fflush(stdout);
  pid_t pid = fork();
  if (pid == 0) { close(p[0]); child_main(prefix, cfg, sc, p[1]); }
  close(p[1]);
  blob.clear();
  char buf[65536];
  ssize_t k;
  while ((k = read(p[0], buf, sizeof buf)) > 0) blob.append(buf, (size_t)k);
  close(p[0]);
  status = 0;
  waitpid(pid, &status, 0);
}
inline Exec run_one(const std::vector<int> &prefix, const Config &cfg, const Scenario &sc) {
  std::string blob;
  int status;
  fork_and_collect(prefix, cfg, sc, blob, status);
  Exec r;
  parse_exec(r, blob, status);
  return r;
}
// a child that produced no complete record and did not die of a signal / the alarm (e.g. the machine killed it, a pipe error): the
// execution is deterministic, so it is simply run again; if that keeps happening the explorer gives up with an internal error (exit 93),
// which the driver reports as "cannot decide" - never as a verdict
inline bool record_usable(const Exec &r) { return r.complete || r.outcome == OC_SIGNAL || r.outcome == OC_TIMEOUT || (r.outcome == OC_EXIT && r.exitcode != 0); }
inline Exec run_one_checked(const std::vector<int> &prefix, const Config &cfg, const Scenario &sc) {
  for (int attempt = 0; attempt < 3; attempt++) { Exec r = run_one(prefix, cfg, sc); if (record_usable(r)) return r; }
  fprintf(stderr, "explorer: no complete record from the child after 3 attempts\n");
  _exit(93);
}
// A small forked "zygote" serves executions for a long search: fork() is proportional to the parent's memory, and the
// explorer's own tables (state sets, successor map) grow into hundreds of MB while the zygote stays small.
struct Zygote {
  int to = -1, from = -1;
  pid_t pid = -1;
  bool start(const Config &cfg, const Scenario &sc) {
    int a[2], b[2];
    if (pipe(a) != 0 || pipe(b) != 0) return false;
    fflush(stdout);
    pid = fork();
    if (pid == 0) {
      close(a[1]); close(b[0]);
      for (;;) {
        int32_t n;
        if (!read_all(a[0], &n, 4) || n < 0) _exit(0);
        std::vector<int> prefix(n);
        if (n && !read_all(a[0], prefix.data(), 4 * (size_t)n)) _exit(0);
        std::string blob;
        int status;
        fork_and_collect(prefix, cfg, sc, blob, status);
        int32_t hdr[2] = {(int32_t)blob.size(), status};
        write_all(b[1], hdr, sizeof hdr);
        write_all(b[1], blob.data(), blob.size());
      }
    }
    close(a[0]); close(b[1]);
    to = a[1]; from = b[0];
    return pid > 0;
  }
  bool run(const std::vector<int> &prefix, Exec &r) {
    int32_t n = (int32_t)prefix.size();
    write_all(to, &n, 4);
    if (n) write_all(to, prefix.data(), 4 * (size_t)n);
    int32_t hdr[2];
    if (!read_all(from, hdr, sizeof hdr)) return false;
    std::string blob((size_t)hdr[0], 0);
    if (hdr[0] && !read_all(from, &blob[0], (size_t)hdr[0])) return false;
    parse_exec(r, blob, hdr[1]);
    return true;
  }
  void stop() { if (pid > 0) { int32_t n = -1; write_all(to, &n, 4); close(to); close(from); waitpid(pid, nullptr, 0); pid = -1; } }
};

inline std::vector<int> choices_of(const Exec &x) {
  std::vector<int> s;
  for (auto &p : x.pts) s.push_back(p.chosen_idx);
  return s;
}
inline int deviations_of(const Exec &x) {
  int d = 0;
  for (auto &p : x.pts) if (p.chosen_idx >= p.spur_from || (p.cur_enabled && p.chosen_idx != 0)) d++;
  return d;
}

struct Explorer {
  Config cfg;
  Scenario sc;
  Stats st;
  // called for every execution; return value ignored
  std::function<void(const Exec &, const std::vector<int> &prefix)> on_exec;
  std::chrono::steady_clock::time_point t0;
  long toplevel_counter = 0;
  std::unordered_set<uint64_t> expanded;                 // stateful mode: states whose alternatives have been scheduled
  std::unordered_map<uint64_t, uint64_t> successor;      // (state, chosen thread) -> next choice-point state
  std::unordered_map<uint64_t, std::vector<uint64_t>> succparts; // debugging (VS_DEBUG_ABS)
  std::unordered_map<uint64_t, std::vector<int>> succwho;

  long timeouts = 0; // executions that ended in the wall-clock alarm: each costs alarm_s seconds, three are enough to report
  bool out_of_budget() {
    if (timeouts >= 3) { st.capped = true; return true; }
    if (cfg.maxexec >= 0 && st.executions >= cfg.maxexec) { st.capped = true; return true; }
    if (cfg.deadline_s > 0 && std::chrono::duration<double>(std::chrono::steady_clock::now() - t0).count() > cfg.deadline_s) { st.capped = true; return true; }
    if (cfg.until_epoch > 0 && (double)time(nullptr) > cfg.until_epoch) { st.capped = true; return true; }
    return false;
  }
  void account(const Exec &x, const std::vector<int> &prefix) {
    st.executions++;
    st.transitions += x.steps;
    if (x.outcome == OC_SLEEPBLOCKED) st.sleepblocked++;
    if (x.outcome == OC_TIMEOUT) timeouts++;
    st.outcomes[outcome_name(x.outcome)]++;
    if (x.outcome != OC_SLEEPBLOCKED) st.observations[std::string(outcome_name(x.outcome)) + "|" + x.obs]++;
    for (auto h : x.hashes) st.states.insert(h);
    int d = deviations_of(x);
    if (d > 0) st.nontrivial++;
    if (d > st.max_preemptions_seen) st.max_preemptions_seen = d;
    if (on_exec) on_exec(x, prefix);
  }
  void explore(const std::vector<int> &prefix, int depth) {
    if (out_of_budget()) return;
    bool mine = true;
    Exec x;
    if (!(zy.pid > 0 && zy.run(prefix, x) && record_usable(x))) x = run_one_checked(prefix, cfg, sc);
    if (x.outcome == OC_DIVERGE) { fprintf(stderr, "explorer: replay divergence (nondeterminism not under control)\n"); _exit(94); }
    if (depth == 0 && cfg.shard != 0) mine = false; // the root execution is accounted by shard 0
    if (mine) account(x, prefix);
    std::vector<int> pre(x.pts.size() + 1, 0);
    for (size_t i = 0; i < x.pts.size(); i++) {
      const vs_pt_t &p = x.pts[i];
      pre[i + 1] = pre[i] + ((p.chosen_idx >= p.spur_from || ((p.cur_enabled || cfg.delay) && p.chosen_idx != 0)) ? 1 : 0);
    }
    if (cfg.stateful && mine) { // abstraction check: the same (state, thread) must always be followed by the same state
      for (size_t i = 0; i + 1 < x.pts.size(); i++) {
        uint64_t k = x.hashes[i] * 31 + x.pts[i].chosen_tid + 1, nx = x.hashes[i + 1];
        auto it = successor.find(k);
        st.succ_checked++;
        if (it == successor.end()) { successor[k] = nx; if (getenv("VS_DEBUG_ABS")) { auto &v = succparts[k]; v.assign(x.parts.begin() + 4 * (i + 1), x.parts.begin() + 4 * (i + 2)); succwho[k] = choices_of(x); succwho[k].resize(i + 2); } }
        else if (it->second != nx) {
          st.succ_mismatch++;
          if (getenv("VS_DEBUG_ABS") && st.succ_mismatch <= 5) {
            auto &v = succparts[k];
            fprintf(stderr, "ABS-MISMATCH at point %zu (chosen t%d): parts differ:", i, x.pts[i].chosen_tid);
            const char *nm[4] = {"thread-ops", "control-loc", "mutex", "observable"};
            for (int q = 0; q < 4; q++) if (v.size() == 4 && v[q] != x.parts[4 * (i + 1) + q]) fprintf(stderr, " %s", nm[q]);
            fprintf(stderr, "\n  first:"); for (int c : succwho[k]) fprintf(stderr, " %d", c);
            fprintf(stderr, "\n  now:  "); for (size_t q = 0; q < i + 2 && q < x.pts.size(); q++) fprintf(stderr, " %d", x.pts[q].chosen_idx);
            fprintf(stderr, "\n");
          }
        }
      }
    }
    for (size_t i = prefix.size(); i < x.pts.size(); i++) {
      const vs_pt_t &p = x.pts[i];
      if (cfg.stateful) {
        if (expanded.count(x.hashes[i])) { st.state_cuts++; break; } // everything below this state is (being) explored from its first visit
        expanded.insert(x.hashes[i]);
      }
      for (int alt = p.chosen_idx + 1; alt < p.nen; alt++) {
        if (!cfg.sleep) {
          int cost = pre[i] + ((alt >= p.spur_from || p.cur_enabled || cfg.delay) ? 1 : 0);
          if (cost > cfg.bound) continue;
        }
        if (depth == 0 && cfg.nshards > 1) {
          long k = toplevel_counter++;
          if (k % cfg.nshards != cfg.shard) continue;
        }
        std::vector<int> np;
        np.reserve(i + 1);
        for (size_t k = 0; k < i; k++) np.push_back(x.pts[k].chosen_idx);
        np.push_back(alt);
        explore(np, depth + 1);
        if (st.capped) return;
      }
    }
  }
  Zygote zy;
  void run() {
    t0 = std::chrono::steady_clock::now();
    zy.start(cfg, sc);
    explore({}, 0);
    zy.stop();
  }
};

} // namespace vx
