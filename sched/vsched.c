/* vsched.c - see vsched.h.  Compiled as C, linked into every harness executable. */
#define _GNU_SOURCE
#include "vsched.h"
#include <dlfcn.h>
#include <errno.h>
#include <limits.h>
#include <linux/futex.h>
#include <pthread.h>
#include <stdio.h>
#include <stdlib.h>
#include <string.h>
#include <sys/syscall.h>
#include <time.h>
#include <unistd.h>

#define MAXMU 256
enum { ST_UNUSED, ST_RUN, ST_FIN };
enum { OP_NONE, OP_START, OP_LOCK, OP_CONDBLOCKED, OP_JOIN, OP_POINT, OP_BCAST, OP_CREATE, OP_SIGNAL, OP_FUTEX, OP_ONCE };

typedef struct {
  int st, op;
  void *obj, *obj2;
  long grp;
  vs_fp_t fp[VS_MAXFP];
  int nfp; /* -1: not set (derive from op), 0..: explicit */
  int kind; /* the harness's label of a pending point (hook kind and argument): part of the state */
  int jt;
  long long deadline_ns; int dclk; /* absolute deadline of a timed wait and its clock */
  int timed, timedout; /* condition wait with a deadline; woken by the (injected) expiry of that deadline */
  unsigned fval; /* OP_FUTEX: the value the word must have left for the waiter to continue */
  volatile int go;
  pthread_t real;
  void *(*fn)(void *);
  void *arg;
  unsigned long cvseq; /* order of arrival on the condvar (for signal) */
  uint64_t pc;         /* hash of the return-address chain at the thread's current scheduling point */
} vthr;

static vthr T[VS_MAXT];
static int nthr = 0, cur = 0;
static volatile int active = 0;
static __thread int my_tid = -1;
static struct { void *m; int owner; uint32_t vc[VS_MAXT]; } MU[MAXMU];
static int nmu = 0;
static uint32_t VC[VS_MAXT][VS_MAXT];
static unsigned long cvseq_ctr = 0;
static long long clock_skew_ns = 0; /* virtual clock, see clock_gettime() below */
static long long real_now_ns(int clk);
/* futex words (libstdc++'s std::future/promise/async shared state) and pthread_once controls */
#define MAXFX 512
static struct { void *a; uint32_t vc[VS_MAXT]; } FX[MAXFX];
static int nfx = 0;
static struct { void *c; int st; int owner; uint32_t vc[VS_MAXT]; } ON[MAXFX]; /* st: 0 not run, 1 running (owner), 2 done */
static int non = 0;
int vs_futex_ops = 0; /* modelled futex-word / once operations seen in this scenario */

vs_pt_t vs_pts[VS_MAXPTS];
int vs_npts = 0;
long vs_steps = 0;
long vs_horizon = 200000;
int vs_prefix[VS_MAXPTS];
int vs_nprefix = 0;
int vs_sleepmode = 0;
int vs_spurious = 0;
int vs_unlock_points = 1; /* scheduling point after every mutex release */
int vs_policy = 0; /* default choice beyond the replayed prefix: 0 = stay on the running thread (canonical), 1 = round robin (next enabled thread id, cyclically): the maximally interleaved deterministic schedule */
int vs_nthreads_seen = 0;
vs_race_t vs_races[VS_MAXRACES];
int vs_nraces = 0;
uint64_t vs_hashes[VS_MAXPTS];
uint64_t vs_parts[VS_MAXPTS][4];
uint64_t (*vs_obs_hash)(void) = 0;
long (*vs_group_of)(int op, void *obj) = 0;
int (*vs_fp_of)(int op, void *obj, vs_fp_t out[VS_MAXFP]) = 0;
void (*vs_on_fatal)(int code) = 0;
static int Z[VS_MAXT]; /* sleep set */

/* ---- real functions ---------------------------------------------------------------------- */
static int (*real_create)(pthread_t *, const pthread_attr_t *, void *(*)(void *), void *);
static int (*real_join)(pthread_t, void **);
static int (*real_lock)(pthread_mutex_t *);
static int (*real_trylock)(pthread_mutex_t *);
static int (*real_unlock)(pthread_mutex_t *);
static int (*real_cwait)(pthread_cond_t *, pthread_mutex_t *);
static int (*real_ctimedwait)(pthread_cond_t *, pthread_mutex_t *, const struct timespec *);
static int (*real_cclockwait)(pthread_cond_t *, pthread_mutex_t *, clockid_t, const struct timespec *);
static int (*real_csignal)(pthread_cond_t *);
static int (*real_cbcast)(pthread_cond_t *);
static int (*real_once)(pthread_once_t *, void (*)(void));
static volatile int resolving = 0, resolved = 0;
static void resolve(void) {
  if (resolved || resolving) return;
  resolving = 1;
  real_create = dlsym(RTLD_NEXT, "pthread_create");
  real_join = dlsym(RTLD_NEXT, "pthread_join");
  real_lock = dlsym(RTLD_NEXT, "pthread_mutex_lock");
  real_trylock = dlsym(RTLD_NEXT, "pthread_mutex_trylock");
  real_unlock = dlsym(RTLD_NEXT, "pthread_mutex_unlock");
  real_cwait = dlsym(RTLD_NEXT, "pthread_cond_wait");
  real_ctimedwait = dlsym(RTLD_NEXT, "pthread_cond_timedwait");
  real_cclockwait = dlsym(RTLD_NEXT, "pthread_cond_clockwait");
  real_csignal = dlsym(RTLD_NEXT, "pthread_cond_signal");
  real_cbcast = dlsym(RTLD_NEXT, "pthread_cond_broadcast");
  real_once = dlsym(RTLD_NEXT, "pthread_once");
  resolved = 1;
  resolving = 0;
}
/* modelled iff the scheduler is active and the caller is a live virtual thread */
static inline int modelled(void) { return active && my_tid >= 0 && T[my_tid].st == ST_RUN; }

/* ---- futex hand-off ------------------------------------------------------------------------ */
static void fwait(volatile int *a) {
  while (__atomic_load_n(a, __ATOMIC_ACQUIRE) == 0) syscall(SYS_futex, a, FUTEX_WAIT, 0, NULL, NULL, 0);
  __atomic_store_n(a, 0, __ATOMIC_RELEASE);
}
static void fwake(volatile int *a) {
  __atomic_store_n(a, 1, __ATOMIC_RELEASE);
  syscall(SYS_futex, a, FUTEX_WAKE, 1, NULL, NULL, 0);
}

/* ---- model state --------------------------------------------------------------------------- */
static int mu_index(void *m) {
  for (int i = 0; i < nmu; i++)
    if (MU[i].m == m) return i;
  if (nmu >= MAXMU) { fprintf(stderr, "vsched: too many mutexes\n"); _exit(99); }
  MU[nmu].m = m;
  MU[nmu].owner = -1;
  memset(MU[nmu].vc, 0, sizeof MU[nmu].vc);
  return nmu++;
}
static int fx_index(void *a) {
  for (int i = 0; i < nfx; i++)
    if (FX[i].a == a) return i;
  if (nfx >= MAXFX) { fprintf(stderr, "vsched: too many futex words\n"); _exit(99); }
  FX[nfx].a = a;
  memset(FX[nfx].vc, 0, sizeof FX[nfx].vc);
  return nfx++;
}
static int once_index(void *c) {
  for (int i = 0; i < non; i++)
    if (ON[i].c == c) return i;
  if (non >= MAXFX) { fprintf(stderr, "vsched: too many once controls\n"); _exit(99); }
  ON[non].c = c; ON[non].st = 0; ON[non].owner = -1;
  memset(ON[non].vc, 0, sizeof ON[non].vc);
  return non++;
}
static int enabled(int t) {
  if (T[t].st != ST_RUN) return 0;
  switch (T[t].op) {
  case OP_FUTEX: return __atomic_load_n((unsigned *)T[t].obj, __ATOMIC_ACQUIRE) != T[t].fval; /* blocked while the word still holds the expected value */
  case OP_ONCE: { int i = once_index(T[t].obj); return ON[i].st != 1 || ON[i].owner == t; }
  case OP_LOCK: return MU[mu_index(T[t].obj)].owner == -1;
  case OP_CONDBLOCKED: return 0;
  case OP_JOIN: return T[t].jt < 0 || T[T[t].jt].st == ST_FIN;
  default: return 1;
  }
}
static long grp_of(int t) {
  int op = T[t].op;
  if (op == OP_POINT) return T[t].grp;
  if (op == OP_LOCK || op == OP_BCAST || op == OP_SIGNAL) return vs_group_of ? vs_group_of(op, T[t].obj) : -1;
  return -1;
}
/* footprint of thread t's pending transition */
static int fp_of(int t, vs_fp_t out[VS_MAXFP]) {
  int op = T[t].op;
  if (op == OP_POINT && T[t].nfp >= 0) { memcpy(out, T[t].fp, sizeof(vs_fp_t) * T[t].nfp); return T[t].nfp; }
  if ((op == OP_LOCK || op == OP_BCAST || op == OP_SIGNAL || op == OP_POINT) && vs_fp_of) {
    int n = vs_fp_of(op, T[t].obj, out);
    if (n >= 0) return n;
  }
  if ((op == OP_LOCK || op == OP_BCAST || op == OP_SIGNAL) && !vs_fp_of && T[t].obj) {
    /* no harness mapping: the pthread object itself is the shared object (a notify also touches the mutex of its waiters: unknown here, so a waiter's wake-up is treated through the condvar object, which its pending re-lock does not name -> be conservative for notifies) */
    if (op == OP_LOCK) { out[0].obj = (long)(uintptr_t)T[t].obj; out[0].write = 1; return 1; }
  }
  out[0].obj = -1; out[0].write = 1; /* create, join, start, unknown objects: dependent with everything */
  return 1;
}
static int indep_fp(const vs_fp_t *a, int na, const vs_fp_t *b, int nb) {
  for (int i = 0; i < na; i++)
    for (int j = 0; j < nb; j++) {
      if (a[i].obj < 0 || b[j].obj < 0) return 0;
      if (a[i].obj == b[j].obj && (a[i].write || b[j].write)) return 0;
    }
  return 1;
}

int vs_pc_frames = 10;
/* control location of the calling thread: hash of up to vs_pc_frames return addresses (frame-pointer walk; all code
   involved is compiled with -fno-omit-frame-pointer, addresses are identical in every forked child) */
static void *scenario_base_frame = 0; /* frame of vs_begin()'s caller: the main thread's chain is not followed beyond the scenario (the explorer's own recursion depth must not leak into the state) */
extern char __executable_start, etext; /* linker-defined: text of the harness executable (wencry + harness code, all built with frame pointers) */
static uint64_t callchain_hash(void) {
  uint64_t h = 0x9ae16a3b2f90404fULL;
  void **fp = (void **)__builtin_frame_address(0);
  for (int i = 0; i < vs_pc_frames && fp; i++) {
    void **next = (void **)fp[0];
    void *ret = fp[1];
    if (my_tid == 0 && scenario_base_frame && (void *)fp >= scenario_base_frame) break;
    if ((char *)ret < &__executable_start || (char *)ret >= &etext) break; /* left our own code (libstdc++/libc frames keep no frame pointer: their chain is garbage) */
    h ^= (uint64_t)(uintptr_t)ret + 0x9e3779b97f4a7c15ULL + (h << 6) + (h >> 2);
    if (next <= fp || (char *)next - (char *)fp > (1 << 20)) break; /* end of the chain / foreign frame */
    fp = next;
  }
  return h;
}
static uint64_t mix(uint64_t h, uint64_t v) {
  h ^= v + 0x9e3779b97f4a7c15ULL + (h << 6) + (h >> 2);
  return h * 0xff51afd7ed558ccdULL;
}
uint64_t vs_hashparts[4]; /* debugging aid: the last state hash split into (thread ops, control locations, mutex owners, observable state) */
static uint64_t state_hash(void) {
  uint64_t h = 1469598103934665603ULL, a = 7 + (uint64_t)vs_spurious, b = 11, c2 = 13; /* the remaining spurious wake-up budget is part of the state */
  for (int t = 0; t < nthr; t++) {
    a = mix(a, (uint64_t)T[t].st * 16 + T[t].op);
    a = mix(a, (uint64_t)grp_of(t));
    if (T[t].op == OP_POINT) a = mix(a, (uint64_t)T[t].kind);
    if (T[t].st == ST_RUN) b = mix(b, T[t].pc + t);
    if (T[t].op == OP_JOIN) a = mix(a, T[t].jt);
    if (T[t].op == OP_FUTEX) a = mix(a, ((uint64_t)T[t].fval << 1) + (uint64_t)enabled(t));
    if (T[t].op == OP_ONCE) a = mix(a, (uint64_t)ON[once_index(T[t].obj)].st);
  }
  for (int i = 0; i < nmu; i++)
    if (MU[i].owner != -1) c2 += mix(17, ((uint64_t)(vs_group_of ? vs_group_of(OP_LOCK, MU[i].m) : i) << 8) + MU[i].owner + 1); /* commutative: the table order depends on the schedule */
  uint64_t o = vs_obs_hash ? vs_obs_hash() : 0;
  vs_hashparts[0] = a; vs_hashparts[1] = b; vs_hashparts[2] = c2; vs_hashparts[3] = o;
  h = mix(mix(mix(mix(h, a), b), c2), o);
  return h;
}

int vs_describe(char *buf, int n) {
  static const char *opn[] = {"none", "start", "lock", "condwait", "join", "point", "bcast", "create", "signal", "futexwait", "once"};
  int k = 0;
  for (int t = 0; t < nthr && k < n - 64; t++) {
    if (T[t].st != ST_RUN) continue;
    k += snprintf(buf + k, n - k, "t%d:%s(g%ld)", t, opn[T[t].op], grp_of(t));
    if (T[t].op == OP_JOIN) k += snprintf(buf + k, n - k, "->t%d", T[t].jt);
    k += snprintf(buf + k, n - k, " ");
  }
  if (k > 0) buf[k - 1] = 0; else buf[0] = 0;
  return k;
}

static void fatal(int code, int exitcode) {
  if (vs_on_fatal) vs_on_fatal(code);
  _exit(exitcode);
}

/* Choose the next thread to run; called by thread `cur` with its pending op set (or finished). */
static void reschedule(void) {
  int me = cur;
  for (;;) {
    int en[VS_MAXT], n = 0;
    int cur_en = enabled(me);
    if (cur_en) en[n++] = me;
    for (int t = 0; t < nthr; t++)
      if (t != me && enabled(t)) en[n++] = t;
    if (n == 0) {
      int allfin = 1;
      for (int t = 0; t < nthr; t++)
        if (T[t].st == ST_RUN) allfin = 0;
      if (allfin) return;
      fatal(VS_DEADLOCK, VS_EXIT_DEADLOCK);
    }
    if (++vs_steps > vs_horizon) fatal(VS_HORIZON, VS_EXIT_HORIZON);
    int idx = 0, nx;
    if (vs_sleepmode) {
      int cand[VS_MAXT], nc = 0;
      for (int i = 0; i < n; i++)
        if (!Z[en[i]]) cand[nc++] = en[i];
      if (nc == 0) fatal(VS_SLEEPBLOCKED, VS_EXIT_SLEEPBLOCKED);
      int ci = 0;
      if (nc > 1) {
        if (vs_npts < vs_nprefix) {
          ci = vs_prefix[vs_npts];
          if (ci >= nc) fatal(VS_DIVERGE, VS_EXIT_DIVERGE);
        }
        if (vs_npts >= VS_MAXPTS) fatal(VS_TOOMANYPTS, VS_EXIT_TOOMANY);
        vs_pt_t *p = &vs_pts[vs_npts];
        p->nen = nc; p->chosen_idx = ci; p->cur_enabled = cur_en; p->chosen_tid = cand[ci]; p->spur_from = nc; p->op = T[cand[ci]].op;
        vs_hashes[vs_npts] = state_hash();
        memcpy(vs_parts[vs_npts], vs_hashparts, sizeof vs_hashparts);
        vs_npts++;
      }
      for (int i = 0; i < ci; i++) Z[cand[i]] = 1;
      nx = cand[ci];
      vs_fp_t fa[VS_MAXFP], fb[VS_MAXFP];
      int na = fp_of(nx, fa);
      for (int t = 0; t < nthr; t++)
        if (Z[t]) {
          int nb = fp_of(t, fb);
          if (t == nx || !indep_fp(fa, na, fb, nb)) Z[t] = 0;
        }
    } else {
      /* spurious wake-up candidates come after the normal ones */
      int spur[VS_MAXT], ns = 0;
      if (vs_spurious > 0)
        for (int t = 0; t < nthr; t++)
          if (T[t].st == ST_RUN && T[t].op == OP_CONDBLOCKED) spur[ns++] = t;
      int tot = n + ns;
      if (tot > 1) {
        if (vs_npts < vs_nprefix) {
          idx = vs_prefix[vs_npts];
          if (idx >= tot) fatal(VS_DIVERGE, VS_EXIT_DIVERGE);
        } else if (vs_policy == 1 && n > 1) {
          int best = -1, bestd = 1 << 30;
          for (int i = 0; i < n; i++) { int d = (en[i] - me + nthr - 1) % nthr; if (en[i] != me && d < bestd) { bestd = d; best = i; } }
          if (best >= 0) idx = best;
        }
        if (vs_npts >= VS_MAXPTS) fatal(VS_TOOMANYPTS, VS_EXIT_TOOMANY);
        vs_pt_t *p = &vs_pts[vs_npts];
        p->nen = tot; p->chosen_idx = idx; p->cur_enabled = cur_en; p->spur_from = n;
        p->chosen_tid = idx < n ? en[idx] : spur[idx - n];
        p->op = T[p->chosen_tid].op;
        vs_hashes[vs_npts] = state_hash();
        memcpy(vs_parts[vs_npts], vs_hashparts, sizeof vs_hashparts);
        vs_npts++;
      }
      if (idx >= n) { /* inject a spurious wake-up, then decide again */
        int w = spur[idx - n];
        T[w].op = OP_LOCK;
        T[w].obj = T[w].obj2;
        if (T[w].timed) { long long nowv = real_now_ns(T[w].dclk) + clock_skew_ns; if (nowv <= T[w].deadline_ns) clock_skew_ns += T[w].deadline_ns - nowv + 1000; }
        if (T[w].timed) T[w].timedout = 1; /* a timed wait is released by its deadline (however long a stall that needs), an untimed one spuriously */
        vs_spurious--;
        continue;
      }
      nx = en[idx];
    }
    if (nx != me) {
      cur = nx;
      fwake(&T[nx].go);
      if (T[me].st == ST_RUN) fwait(&T[me].go);
    }
    return;
  }
}
static void point(int op, void *obj, long grp) {
  int me = cur;
  T[me].pc = callchain_hash();
  T[me].op = op;
  T[me].obj = obj;
  T[me].grp = grp;
  if (op != OP_POINT || obj != (void *)&T[me].fp) T[me].nfp = -1;
  reschedule();
  T[me].op = OP_NONE;
}

static void hb_reset(void);
/* ---- public control ------------------------------------------------------------------------- */
void vs_begin(void) {
  resolve();
  scenario_base_frame = __builtin_frame_address(0);
  memset(T, 0, sizeof T);
  memset(Z, 0, sizeof Z);
  memset(VC, 0, sizeof VC);
  nmu = 0;
  nfx = 0;
  non = 0;
  clock_skew_ns = 0;
  vs_futex_ops = 0;
  nthr = 1;
  cur = 0;
  my_tid = 0;
  T[0].st = ST_RUN;
  VC[0][0] = 1;
  vs_npts = 0;
  vs_steps = 0;
  vs_nraces = 0;
  vs_nthreads_seen = 1;
  cvseq_ctr = 0;
  hb_reset();
  active = 1;
}
void vs_end(void) {
  active = 0;
  my_tid = -1;
}
int vs_active(void) { return modelled(); }
int vs_thread_done(int t) { return t >= 0 && t < nthr && T[t].st == ST_FIN; }
int vs_self(void) { return my_tid; }
void vs_point(int kind, long group) {
  if (modelled()) { T[cur].kind = kind; point(OP_POINT, 0, group); }
}
void vs_point_fp(int kind, long group, const vs_fp_t *fp, int nfp) {
  if (!modelled()) return;
  int me = cur;
  if (nfp > VS_MAXFP) nfp = VS_MAXFP;
  memcpy(T[me].fp, fp, sizeof(vs_fp_t) * nfp);
  T[me].nfp = nfp;
  T[me].kind = kind;
  point(OP_POINT, (void *)&T[me].fp, group);
}

/* ---- happens-before monitor ----------------------------------------------------------------- */
#define MAXLOC 64
static struct { int wt; uint32_t wclk; int wcode; uint32_t rclk[VS_MAXT]; int rcode[VS_MAXT]; } LOC[MAXLOC];
static int loc_init_epoch = 0;
static void report_race(int loc, int tp, int cp, int wp, int tn, int cn, int wn) {
  for (int i = 0; i < vs_nraces; i++)
    if (vs_races[i].loc == loc && vs_races[i].code_prev == cp && vs_races[i].code_now == cn) return;
  if (vs_nraces >= VS_MAXRACES) return;
  vs_race_t *r = &vs_races[vs_nraces++];
  r->loc = loc; r->t_prev = tp; r->t_now = tn; r->code_prev = cp; r->code_now = cn; r->write_prev = wp; r->write_now = wn;
}
void vs_access(int loc, int is_write, int code) {
  if (!modelled() || loc < 0 || loc >= MAXLOC) return;
  int t = cur;
  if (LOC[loc].wt >= 0 && LOC[loc].wt != t && LOC[loc].wclk > VC[t][LOC[loc].wt])
    report_race(loc, LOC[loc].wt, LOC[loc].wcode, 1, t, code, is_write);
  if (is_write) {
    for (int u = 0; u < nthr; u++)
      if (u != t && LOC[loc].rclk[u] > VC[t][u]) report_race(loc, u, LOC[loc].rcode[u], 0, t, code, 1);
    LOC[loc].wt = t;
    LOC[loc].wclk = VC[t][t];
    LOC[loc].wcode = code;
  } else {
    LOC[loc].rclk[t] = VC[t][t];
    LOC[loc].rcode[t] = code;
  }
}
static void hb_reset(void) {
  for (int i = 0; i < MAXLOC; i++) {
    LOC[i].wt = -1;
    LOC[i].wclk = 0;
    memset(LOC[i].rclk, 0, sizeof LOC[i].rclk);
  }
  loc_init_epoch++;
}
static void vc_join(uint32_t *dst, const uint32_t *src) {
  for (int i = 0; i < VS_MAXT; i++)
    if (src[i] > dst[i]) dst[i] = src[i];
}
__attribute__((constructor)) static void vs_ctor(void) { hb_reset(); }

/* ---- interposed pthread functions ----------------------------------------------------------- */
int pthread_mutex_lock(pthread_mutex_t *m) {
  if (!modelled()) {
    resolve();
    return real_lock ? real_lock(m) : 0;
  }
  int me = cur;
  point(OP_LOCK, m, 0);
  int i = mu_index(m);
  if (MU[i].owner != -1) { fprintf(stderr, "vsched: internal error, lock of owned mutex\n"); _exit(98); }
  MU[i].owner = me;
  vc_join(VC[me], MU[i].vc);
  return 0;
}
int pthread_mutex_trylock(pthread_mutex_t *m) {
  if (!modelled()) {
    resolve();
    return real_trylock ? real_trylock(m) : 0;
  }
  int me = cur;
  point(OP_POINT, m, -1);
  int i = mu_index(m);
  if (MU[i].owner != -1) return EBUSY;
  MU[i].owner = me;
  vc_join(VC[me], MU[i].vc);
  return 0;
}
int pthread_mutex_unlock(pthread_mutex_t *m) {
  if (!modelled()) {
    resolve();
    return real_unlock ? real_unlock(m) : 0;
  }
  int me = cur;
  int i = mu_index(m);
  MU[i].owner = -1;
  memcpy(MU[i].vc, VC[me], sizeof MU[i].vc);
  VC[me][me]++;
  /* scheduling point AFTER the release: whatever the thread does next without a lock (an unsynchronised read of a flag another
     thread is about to change, an early return) must be separable from the critical section it has just left - without this point
     the code from an unlock up to the next synchronisation operation would run atomically with the release */
  if (vs_unlock_points) { T[me].kind = 500; point(OP_POINT, m, vs_group_of ? vs_group_of(OP_LOCK, m) : -1); }
  return 0;
}
/* virtual clock: while a scenario runs, clock_gettime() = real clock + skew. When the deadline of a timed wait is injected the skew
   jumps past that deadline, because libstdc++ decides "timeout or not" by reading the clock again after the wait returns. */
static long long real_now_ns(int clk) {
  struct timespec ts;
  syscall(SYS_clock_gettime, clk, &ts);
  return (long long)ts.tv_sec * 1000000000LL + ts.tv_nsec;
}
int clock_gettime(clockid_t clk, struct timespec *ts) {
  long r = syscall(SYS_clock_gettime, clk, ts);
  if (r == 0 && active && clock_skew_ns && (clk == CLOCK_MONOTONIC || clk == CLOCK_REALTIME)) {
    long long t = (long long)ts->tv_sec * 1000000000LL + ts->tv_nsec + clock_skew_ns;
    ts->tv_sec = t / 1000000000LL;
    ts->tv_nsec = t % 1000000000LL;
  }
  return (int)r;
}
static int model_wait_dl(pthread_cond_t *c, pthread_mutex_t *m, int clk, const struct timespec *ts);
static int model_wait(pthread_cond_t *c, pthread_mutex_t *m, int timed) {
  int me = cur;
  T[me].timed = timed;
  T[me].timedout = 0;
  /* scheduling point while the mutex is still held: another thread that touches the predicate WITHOUT the
     mutex (and notifies) can run between the waiter's predicate test and its parking - the lost wake-up window */
  point(OP_POINT, m, vs_group_of ? vs_group_of(OP_LOCK, m) : -1);
  int i = mu_index(m);
  MU[i].owner = -1;
  memcpy(MU[i].vc, VC[me], sizeof MU[i].vc);
  VC[me][me]++;
  T[me].pc = callchain_hash();
  T[me].op = OP_CONDBLOCKED;
  T[me].obj = c;
  T[me].obj2 = m;
  T[me].cvseq = ++cvseq_ctr;
  reschedule();
  /* resumed: a signal/broadcast (or injected spurious wake-up) turned us into a pending lock,
     and we were chosen while the mutex was free */
  i = mu_index(m);
  MU[i].owner = me;
  vc_join(VC[me], MU[i].vc);
  T[me].op = OP_NONE;
  T[me].timed = 0;
  if (T[me].timedout) { T[me].timedout = 0; return ETIMEDOUT; } /* the deadline of a timed wait passed (injected like a spurious wake-up) */
  return 0;
}
static int model_wait_dl(pthread_cond_t *c, pthread_mutex_t *m, int clk, const struct timespec *ts) {
  T[cur].deadline_ns = ts ? (long long)ts->tv_sec * 1000000000LL + ts->tv_nsec : 0;
  T[cur].dclk = clk;
  return model_wait(c, m, 1);
}
int pthread_cond_wait(pthread_cond_t *c, pthread_mutex_t *m) {
  if (!modelled()) {
    resolve();
    return real_cwait(c, m);
  }
  return model_wait(c, m, 0);
}
int pthread_cond_timedwait(pthread_cond_t *c, pthread_mutex_t *m, const struct timespec *ts) {
  if (!modelled()) {
    resolve();
    return real_ctimedwait(c, m, ts);
  }
  return model_wait_dl(c, m, CLOCK_REALTIME, ts); /* the deadline may pass at any moment the thread is parked: injected within the spurious wake-up budget, the wait then returns ETIMEDOUT */
}
int pthread_cond_clockwait(pthread_cond_t *c, pthread_mutex_t *m, clockid_t clk, const struct timespec *ts) {
  if (!modelled()) {
    resolve();
    return real_cclockwait(c, m, clk, ts);
  }
  return model_wait_dl(c, m, clk, ts);
}
int pthread_cond_broadcast(pthread_cond_t *c) {
  if (!modelled()) {
    resolve();
    return real_cbcast ? real_cbcast(c) : 0;
  }
  point(OP_BCAST, c, 0);
  for (int t = 0; t < nthr; t++)
    if (T[t].st == ST_RUN && T[t].op == OP_CONDBLOCKED && T[t].obj == c) {
      T[t].op = OP_LOCK;
      T[t].obj = T[t].obj2;
    }
  return 0;
}
int pthread_cond_signal(pthread_cond_t *c) {
  if (!modelled()) {
    resolve();
    return real_csignal ? real_csignal(c) : 0;
  }
  point(OP_SIGNAL, c, 0);
  int best = -1; /* longest waiter first (documented simplification) */
  for (int t = 0; t < nthr; t++)
    if (T[t].st == ST_RUN && T[t].op == OP_CONDBLOCKED && T[t].obj == c && (best < 0 || T[t].cvseq < T[best].cvseq)) best = t;
  if (best >= 0) {
    T[best].op = OP_LOCK;
    T[best].obj = T[best].obj2;
  }
  return 0;
}
/* ---- futex words and once controls ------------------------------------------------------------
   std::future / std::promise / std::async do not block in a pthread condition variable: libstdc++ parks the waiter with
   __atomic_futex_unsigned_base::_M_futex_wait_until(addr, val) and wakes it with _M_futex_notify_all(addr) (vsched_cxx.cpp
   forwards both here), and publishes results through std::call_once = pthread_once. Model: a waiter is enabled iff the word no
   longer holds `val` (what the kernel checks), a wake is a scheduling point; happens-before: wake -> resumed waiter, and
   completion of a once routine -> every later caller. Atomic accesses to the word itself are not visible to the monitor. */
int vs_futex_wait(unsigned *addr, unsigned val) {
  if (!modelled()) return -1;
  int me = cur;
  vs_futex_ops++;
  T[me].fval = val;
  point(OP_FUTEX, addr, -1);
  vc_join(VC[me], FX[fx_index(addr)].vc);
  return 0;
}
int vs_futex_wake(unsigned *addr) {
  if (!modelled()) return -1;
  int me = cur;
  vs_futex_ops++;
  int i = fx_index(addr);
  vc_join(FX[i].vc, VC[me]);
  VC[me][me]++;
  point(OP_POINT, addr, -1);
  return 0;
}
static void once_cleanup(int *ip) { /* runs on normal return and when an exception unwinds through pthread_once */
  int i = *ip;
  if (i >= 0 && ON[i].st == 1) { ON[i].st = 0; ON[i].owner = -1; }
}
int pthread_once(pthread_once_t *c, void (*fn)(void)) {
  resolve();
  if (!modelled()) return real_once(c, fn);
  int me = cur;
  vs_futex_ops++;
  point(OP_ONCE, c, -1);
  int i = once_index(c);
  /* glibc: a pthread_once_t is 0 when fresh and 2 when done. A control that the table remembers as done but that reads as fresh is
     a new object at a recycled address (a new shared state allocated where a freed one lived) */
  if (ON[i].st == 2 && *(volatile int *)c == 0) { ON[i].st = 0; memset(ON[i].vc, 0, sizeof ON[i].vc); }
  if (ON[i].st == 2) { vc_join(VC[me], ON[i].vc); return real_once(c, fn); }
  ON[i].st = 1;
  ON[i].owner = me;
  int guard __attribute__((cleanup(once_cleanup))) = i;
  int rc = real_once(c, fn); /* never blocks: every other modelled caller is held back by the model until st != 1 */
  i = once_index(c);
  ON[i].st = 2;
  ON[i].owner = -1;
  memcpy(ON[i].vc, VC[cur], sizeof ON[i].vc);
  VC[cur][cur]++;
  guard = -1;
  return rc;
}
static void *tramp(void *p) {
  vthr *t = (vthr *)p;
  my_tid = (int)(t - T);
  fwait(&t->go);
  t->op = OP_NONE;
  void *r = t->fn(t->arg);
  VC[my_tid][my_tid]++;
  t->st = ST_FIN;
  reschedule();
  return r;
}
int pthread_create(pthread_t *th, const pthread_attr_t *a, void *(*fn)(void *), void *arg) {
  resolve();
  if (!modelled()) return real_create(th, a, fn, arg);
  if (nthr >= VS_MAXT) { fprintf(stderr, "vsched: too many threads\n"); _exit(97); }
  int me = cur;
  int id = nthr++;
  vs_nthreads_seen = nthr;
  T[id].st = ST_RUN;
  T[id].op = OP_START;
  T[id].fn = fn;
  T[id].arg = arg;
  T[id].go = 0;
  memcpy(VC[id], VC[me], sizeof VC[id]);
  VC[id][id] = 1;
  VC[me][me]++;
  int rc = real_create(&T[id].real, a, tramp, &T[id]);
  if (rc != 0) { fprintf(stderr, "vsched: real pthread_create failed %d\n", rc); _exit(96); }
  *th = T[id].real;
  point(OP_CREATE, 0, -1);
  return rc;
}
int pthread_join(pthread_t th, void **rv) {
  resolve();
  if (!modelled()) return real_join(th, rv);
  int me = cur;
  int id = -1;
  for (int t = 1; t < nthr; t++)
    if (T[t].st != ST_UNUSED && pthread_equal(T[t].real, th)) id = t;
  T[me].jt = id;
  point(OP_JOIN, 0, -1);
  if (id >= 0) vc_join(VC[me], VC[id]);
  return real_join(th, rv);
}
